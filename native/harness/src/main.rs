//! Direct-call harness: reads requests on stdin (one per line, fields separated by TAB, byte strings
//! hex-encoded) and answers one line per request on stdout.
use std::ffi::OsString;
use std::io::{self, BufRead, Write};
use std::os::unix::ffi::{OsStrExt, OsStringExt};
use std::path::{Path, PathBuf};

fn unhex(s: &str) -> Vec<u8> {
    (0..s.len() / 2)
        .map(|i| u8::from_str_radix(&s[2 * i..2 * i + 2], 16).unwrap())
        .collect()
}

fn hex(b: &[u8]) -> String {
    b.iter().map(|x| format!("{:02x}", x)).collect()
}

fn path_of(h: &str) -> PathBuf {
    PathBuf::from(OsString::from_vec(unhex(h)))
}

fn main() {
    let mode = std::env::args().nth(1).unwrap_or_default();
    let stdin = io::stdin();
    let out = io::stdout();
    let mut out = io::BufWriter::new(out.lock());
    for line in stdin.lock().lines() {
        let line = line.unwrap();
        let f: Vec<&str> = line.split('\t').collect();
        match mode.as_str() {
            // normpath <hex path> -> <hex normpath> <hex normpath(normpath)>
            "normpath" => {
                let p = path_of(f[0]);
                let n1 = redo::normpath(&p).into_owned();
                let n2 = redo::normpath(&n1).into_owned();
                writeln!(out, "{}\t{}", hex(n1.as_os_str().as_bytes()), hex(n2.as_os_str().as_bytes())).unwrap();
            }
            // abspath <hex cwd> <hex path>
            "abspath" => {
                let r = redo::abs_path(&path_of(f[0]), &path_of(f[1])).into_owned();
                writeln!(out, "{}", hex(r.as_os_str().as_bytes())).unwrap();
            }
            // relpath <hex t> <hex base>   (uses the process cwd for relative t)
            "relpath" => match redo::relpath(path_of(f[0]), path_of(f[1])) {
                Ok(r) => writeln!(out, "ok\t{}", hex(r.as_os_str().as_bytes())).unwrap(),
                Err(e) => writeln!(out, "err\t{}", hex(e.to_string().as_bytes())).unwrap(),
            },
            "realdirpath" => match redo::verif_realdirpath(&path_of(f[0])) {
                Ok(r) => writeln!(out, "ok\t{}", hex(r.as_os_str().as_bytes())).unwrap(),
                Err(e) => writeln!(out, "err\t{}", hex(e.to_string().as_bytes())).unwrap(),
            },
            // dofiles <hex abs path> -> candidates as hex "dir/file" separated by TAB
            "dofiles" => {
                let p = path_of(f[0]);
                let v: Vec<String> = redo::possible_do_files(&p)
                    .map(|d| hex(d.do_dir().join(d.do_file()).as_os_str().as_bytes()))
                    .collect();
                writeln!(out, "{}", v.join("\t")).unwrap();
            }
            // redopath <hex> -> ok/err (validation of RedoPath)
            "redopath" => {
                let b = unhex(f[0]);
                let os = OsString::from_vec(b);
                match redo::RedoPath::from_os_str(&os) {
                    Ok(p) => {
                        let n = p.normpath().into_owned();
                        let s: &str = n.as_ref();
                        writeln!(out, "ok\t{}", hex(s.as_bytes())).unwrap()
                    }
                    Err(_) => writeln!(out, "err").unwrap(),
                }
            }
            // meta <kind> <pid> <timestamp> <hex text> -> formatted line (hex) + reparse result
            "meta" => {
                let kind = f[0];
                let pid: i32 = f[1].parse().unwrap();
                let ts: f64 = f[2].parse().unwrap();
                let text = String::from_utf8(unhex(f[3])).unwrap();
                let m = redo::logs::Meta::verif_new(kind, pid, ts, &text);
                let s = format!("{}", m);
                match redo::logs::Meta::parse(&s) {
                    Ok(m2) => {
                        // (the exit status and name the viewer reads out of a "done" record)
                        let done = match m2.done_text() {
                            Some((rv, name)) => format!("{}\t{}", rv, hex(name.as_bytes())),
                            None => "none\t".to_string(),
                        };
                        writeln!(
                            out,
                            "ok\t{}\t{}\t{}\t{}\t{}\t{}",
                            hex(s.as_bytes()),
                            m2.kind(),
                            m2.pid(),
                            m2.timestamp(),
                            hex(m2.text().as_bytes()),
                            done
                        )
                        .unwrap()
                    }
                    Err(e) => writeln!(out, "err\t{}\t{}", hex(s.as_bytes()), hex(e.to_string().as_bytes())).unwrap(),
                }
            }
            // parse <hex line> -> ok kind pid ts text | err
            "parse" => {
                let s = String::from_utf8_lossy(&unhex(f[0])).into_owned();
                match redo::logs::Meta::parse(&s) {
                    Ok(m) => writeln!(out, "ok\t{}\t{}\t{}\t{}", m.kind(), m.pid(), m.timestamp(), hex(m.text().as_bytes())).unwrap(),
                    Err(_) => writeln!(out, "err").unwrap(),
                }
            }
            _ => {
                eprintln!("unknown mode");
                std::process::exit(2);
            }
        }
    }
    let _ = Path::new("");
    out.flush().unwrap();
}
