//! Workload run under Miri (undefined-behaviour and aliasing interpreter): the pure path and log-record
//! functions of redo, each call also checked against a small reference so that a run that "passes" has
//! really executed the code.  Parameters come from argv: <mode> <seed> <count>.
use std::ffi::{OsStr, OsString};
use std::os::unix::ffi::{OsStrExt, OsStringExt};
use std::path::Path;

struct Rng(u64);
impl Rng {
    fn next(&mut self) -> u64 {
        self.0 ^= self.0 << 13;
        self.0 ^= self.0 >> 7;
        self.0 ^= self.0 << 17;
        self.0
    }
    fn below(&mut self, n: usize) -> usize {
        (self.next() % n as u64) as usize
    }
}

fn ref_clean(p: &[u8]) -> Vec<u8> {
    if p.is_empty() {
        return b".".to_vec();
    }
    let rooted = p[0] == b'/';
    let mut st: Vec<&[u8]> = Vec::new();
    for c in p.split(|b| *b == b'/') {
        if c.is_empty() || c == b"." {
            continue;
        }
        if c == b".." {
            if !st.is_empty() && *st.last().unwrap() != b".." {
                st.pop();
            } else if !rooted {
                st.push(c);
            }
        } else {
            st.push(c);
        }
    }
    let mut out = Vec::new();
    if rooted {
        out.push(b'/');
    }
    for (i, c) in st.iter().enumerate() {
        if i > 0 {
            out.push(b'/');
        }
        out.extend_from_slice(c);
    }
    if out.is_empty() {
        out.push(b'.');
    }
    out
}

fn gen_path(r: &mut Rng, pieces: &[&[u8]], maxk: usize) -> Vec<u8> {
    let k = 1 + r.below(maxk);
    let mut v = Vec::new();
    for _ in 0..k {
        v.extend_from_slice(pieces[r.below(pieces.len())]);
    }
    v
}

fn main() {
    let a: Vec<String> = std::env::args().collect();
    let mode = a.get(1).map(|s| s.as_str()).unwrap_or("normpath");
    let seed: u64 = a.get(2).and_then(|s| s.parse().ok()).unwrap_or(1);
    let count: usize = a.get(3).and_then(|s| s.parse().ok()).unwrap_or(100);
    let mut r = Rng(seed.wrapping_mul(0x9E3779B97F4A7C15) | 1);
    let mut done = 0usize;
    let mut bad = 0usize;
    match mode {
        "normpath" => {
            let pieces: [&[u8]; 12] = [b"a", b"bb", b".", b"..", b"/", b"//", b"...", b" ", b"\xc3\xbc", b"\xff", b"x.y", b"/."];
            for _ in 0..count {
                let p = gen_path(&mut r, &pieces, 9);
                let os = OsString::from_vec(p.clone());
                let n1 = redo::normpath(Path::new(&os)).into_owned();
                let n2 = redo::normpath(&n1).into_owned();
                let want = ref_clean(&p);
                if n1.as_os_str().as_bytes() != want.as_slice() || n1 != n2 {
                    bad += 1;
                    println!("MISMATCH normpath {:?} -> {:?} -> {:?} want {:?}", os, n1, n2, OsStr::from_bytes(&want));
                }
                let abs = redo::abs_path(Path::new("/cwd/x"), Path::new(&os)).into_owned();
                if os.as_bytes().first() == Some(&b'/') {
                    if abs.as_os_str() != os.as_os_str() { bad += 1; println!("MISMATCH abs_path {:?}", os); }
                } else if !abs.as_os_str().as_bytes().starts_with(b"/cwd/x") { bad += 1; println!("MISMATCH abs_path {:?}", os); }
                done += 1;
            }
        }
        "redopath" => {
            let pieces: [&[u8]; 10] = [b"a", b"b.c", b".", b"..", b"/", b" ", b"\xc3\xbc", b"\xff", b"\xfe", b"d/e"];
            for _ in 0..count {
                let p = gen_path(&mut r, &pieces, 8);
                let os = OsString::from_vec(p.clone());
                let utf8 = std::str::from_utf8(&p).is_ok();
                match redo::RedoPath::from_os_str(&os) {
                    Ok(rp) => {
                        if !utf8 { bad += 1; println!("MISMATCH RedoPath accepted non-UTF-8 {:?}", os); }
                        let n = rp.normpath().into_owned();
                        let s: &str = n.as_ref();
                        if s.as_bytes() != ref_clean(&p).as_slice() { bad += 1; println!("MISMATCH RedoPath::normpath {:?} -> {:?}", os, s); }
                        let back: &OsStr = rp.as_ref();
                        if back != os.as_os_str() { bad += 1; println!("MISMATCH RedoPath round trip {:?}", os); }
                    }
                    Err(_) => {
                        if utf8 { bad += 1; println!("MISMATCH RedoPath rejected UTF-8 {:?}", os); }
                    }
                }
                done += 1;
            }
        }
        "meta" => {
            let kinds = ["do", "done", "unchanged", "waiting", "locked", "unlocked", "check", "checked", "error", "warning", "debug", "resumed"];
            let texts: [&str; 10] = ["t", "a b", "x:y", "@@ z", "@@REDO:do:1:1.0@@ q", "0 name", "", "\u{fc}n\u{ef}", ":", "a@@b"];
            for _ in 0..count {
                let kind = kinds[r.below(kinds.len())];
                let pid = (r.next() % 4_000_000) as i32;
                let ts = (r.next() % 2_000_000_0000) as f64 / 10000.0;
                let mut text = String::new();
                for _ in 0..(1 + r.below(3)) {
                    text.push_str(texts[r.below(texts.len())]);
                }
                let m = redo::logs::Meta::verif_new(kind, pid, ts, &text);
                let line = format!("{}", m);
                match redo::logs::Meta::parse(&line) {
                    Ok(m2) => {
                        if m2.kind() != kind || m2.pid().as_raw() != pid || m2.text() != text || (m2.timestamp() - ts).abs() > 0.00006 {
                            bad += 1;
                            println!("MISMATCH meta {:?} reparsed as {} {} {} {:?}", line, m2.kind(), m2.pid(), m2.timestamp(), m2.text());
                        }
                    }
                    Err(e) => { bad += 1; println!("MISMATCH meta {:?} does not parse: {}", line, e); }
                }
                // malformed lines must be rejected, not crash
                let cut = r.below(line.len() + 1);
                let mut c = cut;
                while !line.is_char_boundary(c) { c -= 1; }
                let _ = redo::logs::Meta::parse(&line[..c]);
                done += 1;
            }
        }
        // self-test of the monitor: a deliberate out-of-bounds read that the interpreter must report
        "selftest-ub" => {
            let v = vec![1u8, 2, 3];
            let i = 3 + r.below(2);
            let x = unsafe { *v.as_ptr().add(i) };
            println!("read {}", x);
            done = 1;
        }
        _ => {
            eprintln!("unknown mode");
            std::process::exit(2);
        }
    }
    println!("MIRI-WORKLOAD mode={} seed={} done={} mismatches={}", mode, seed, done, bad);
    if bad > 0 {
        std::process::exit(3);
    }
}
