/* LD_PRELOAD fault injector: kills the calling redo process (or its whole process group) immediately
 * before the N-th state-changing libc call made by any redo process of the run, or makes that call fail.
 *   CRASH_CTR   file holding the global call counter (flock'ed)
 *   CRASH_LOG   optional: append "n pid argv0 op path [path2]" per point
 *   CRASH_AT    optional: point number at which to kill
 *   CRASH_MODE  self (default) | group
 *   CRASH_ROOT  only paths under this directory count
 *   FAULT_AT    optional: point number at which the call fails instead (the process lives on)
 *   FAULT_ERRNO errno of the failing call (number; default ENOSPC); "short" = a write that transfers only half of its bytes
 *   FAULT_MODE  once (default) | from (every counted call from FAULT_AT on fails: the disk stays full)
 */
#define _GNU_SOURCE
#include <dlfcn.h>
#include <errno.h>
#include <fcntl.h>
#include <signal.h>
#include <stdarg.h>
#include <stdio.h>
#include <stdlib.h>
#include <string.h>
#include <sys/file.h>
#include <sys/stat.h>
#include <sys/types.h>
#include <unistd.h>

extern char *program_invocation_short_name;
static __thread int busy;

static int is_redo(void) { return strncmp(program_invocation_short_name, "redo", 4) == 0; }

static int (*real_open)(const char *, int, ...);
static ssize_t (*real_write)(int, const void *, size_t);

static void resolve(void) {
    if (!real_open) real_open = dlsym(RTLD_NEXT, "open");
    if (!real_write) real_write = dlsym(RTLD_NEXT, "write");
}

static const char *absolutize(const char *p, char *buf, size_t n) {
    if (!p) return "-";
    if (p[0] == '/') return p;
    char cwd[2048];
    if (!getcwd(cwd, sizeof cwd)) return p;
    snprintf(buf, n, "%s/%s", cwd, p);
    return buf;
}

/* returns 0: go on; >0: fail the call with that errno; -1: short write */
static int point(const char *op, const char *a, const char *b) {
    if (busy || !is_redo()) return 0;
    const char *cp = getenv("CRASH_CTR");
    if (!cp) return 0;
    char ba[4096], bb[4096];
    const char *pa = absolutize(a, ba, sizeof ba);
    const char *pb = b ? absolutize(b, bb, sizeof bb) : 0;
    const char *root = getenv("CRASH_ROOT");
    if (root && strncmp(pa, root, strlen(root)) != 0 && !(pb && strncmp(pb, root, strlen(root)) == 0)) return 0;
    busy = 1;
    resolve();
    long n = 0;
    int fd = real_open(cp, O_RDWR | O_CREAT | O_CLOEXEC, 0644);
    if (fd >= 0) {
        flock(fd, LOCK_EX);
        char buf[32] = {0};
        if (pread(fd, buf, 31, 0) < 0) buf[0] = 0;
        n = atol(buf) + 1;
        int l = snprintf(buf, sizeof buf, "%ld\n", n);
        if (pwrite(fd, buf, l, 0) < 0) { /* ignore */ }
        const char *lp = getenv("CRASH_LOG");
        if (lp) {
            int lf = real_open(lp, O_WRONLY | O_APPEND | O_CREAT | O_CLOEXEC, 0644);
            if (lf >= 0) {
                char line[9000];
                int ll = snprintf(line, sizeof line, "%ld %d %s %s %s %s\n", n, getpid(), program_invocation_short_name, op, pa, pb ? pb : "-");
                if (real_write(lf, line, ll) < 0) { /* ignore */ }
                close(lf);
            }
        }
        flock(fd, LOCK_UN);
        close(fd);
    }
    const char *at = getenv("CRASH_AT");
    if (at && atol(at) == n) {
        const char *m = getenv("CRASH_MODE");
        if (m && !strcmp(m, "group")) kill(0, SIGKILL);
        else kill(getpid(), SIGKILL);
        for (;;) pause();
    }
    int act = 0;
    const char *fa = getenv("FAULT_AT");
    if (fa) {
        const char *fm = getenv("FAULT_MODE");
        long f = atol(fa);
        /* a disk that stays full (mode from) keeps refusing calls that need space; removing and renaming still work */
        int needs_space = strcmp(op, "unlink") != 0 && strcmp(op, "rename") != 0;
        if (n == f || (fm && !strcmp(fm, "from") && n > f && needs_space)) {
            const char *fe = getenv("FAULT_ERRNO");
            if (fe && !strcmp(fe, "short")) act = -1;
            else act = fe ? atoi(fe) : ENOSPC;
            if (act == 0) act = ENOSPC;
        }
    }
    busy = 0;
    return act;
}

static int fdpoint(const char *op, int fd) {
    if (busy || !is_redo()) return 0;
    struct stat st;
    if (fstat(fd, &st) != 0 || !S_ISREG(st.st_mode)) return 0;
    char p[64], t[4096];
    snprintf(p, sizeof p, "/proc/self/fd/%d", fd);
    ssize_t l = readlink(p, t, sizeof t - 1);
    if (l <= 0) return 0;
    t[l] = 0;
    return point(op, t, 0);
}

int rename(const char *a, const char *b) {
    static int (*real)(const char *, const char *);
    if (!real) real = dlsym(RTLD_NEXT, "rename");
    int f = point("rename", a, b);
    if (f > 0) { errno = f; return -1; }
    return real(a, b);
}
int unlink(const char *a) {
    static int (*real)(const char *);
    if (!real) real = dlsym(RTLD_NEXT, "unlink");
    int f = point("unlink", a, 0);
    if (f > 0) { errno = f; return -1; }
    return real(a);
}
int mkdir(const char *a, mode_t m) {
    static int (*real)(const char *, mode_t);
    if (!real) real = dlsym(RTLD_NEXT, "mkdir");
    int f = point("mkdir", a, 0);
    if (f > 0) { errno = f; return -1; }
    return real(a, m);
}
int ftruncate(int fd, off_t l) {
    static int (*real)(int, off_t);
    if (!real) real = dlsym(RTLD_NEXT, "ftruncate");
    int f = fdpoint("ftruncate", fd);
    if (f > 0) { errno = f; return -1; }
    return real(fd, l);
}
int ftruncate64(int fd, off64_t l) {
    static int (*real)(int, off64_t);
    if (!real) real = dlsym(RTLD_NEXT, "ftruncate64");
    int f = fdpoint("ftruncate", fd);
    if (f > 0) { errno = f; return -1; }
    return real(fd, l);
}
ssize_t write(int fd, const void *b, size_t n) {
    resolve();
    int f = fdpoint("write", fd);
    if (f > 0) { errno = f; return -1; }
    if (f < 0 && n > 1) n = n / 2;
    return real_write(fd, b, n);
}
ssize_t pwrite(int fd, const void *b, size_t n, off_t o) {
    static ssize_t (*real)(int, const void *, size_t, off_t);
    if (!real) real = dlsym(RTLD_NEXT, "pwrite");
    int f = fdpoint("write", fd);
    if (f > 0) { errno = f; return -1; }
    if (f < 0 && n > 1) n = n / 2;
    return real(fd, b, n, o);
}
ssize_t pwrite64(int fd, const void *b, size_t n, off64_t o) {
    static ssize_t (*real)(int, const void *, size_t, off64_t);
    if (!real) real = dlsym(RTLD_NEXT, "pwrite64");
    int f = fdpoint("write", fd);
    if (f > 0) { errno = f; return -1; }
    if (f < 0 && n > 1) n = n / 2;
    return real(fd, b, n, o);
}
static int creating(int flags) { return (flags & (O_CREAT | O_TRUNC)) != 0; }
int open(const char *p, int flags, ...) {
    resolve();
    mode_t m = 0;
    if (flags & (O_CREAT | O_TMPFILE)) { va_list ap; va_start(ap, flags); m = va_arg(ap, mode_t); va_end(ap); }
    if (creating(flags)) { int f = point("create", p, 0); if (f > 0) { errno = f; return -1; } }
    return real_open(p, flags, m);
}
int open64(const char *p, int flags, ...) {
    static int (*real)(const char *, int, ...);
    if (!real) real = dlsym(RTLD_NEXT, "open64");
    mode_t m = 0;
    if (flags & (O_CREAT | O_TMPFILE)) { va_list ap; va_start(ap, flags); m = va_arg(ap, mode_t); va_end(ap); }
    if (creating(flags)) { int f = point("create", p, 0); if (f > 0) { errno = f; return -1; } }
    return real(p, flags, m);
}
int openat(int d, const char *p, int flags, ...) {
    static int (*real)(int, const char *, int, ...);
    if (!real) real = dlsym(RTLD_NEXT, "openat");
    mode_t m = 0;
    if (flags & (O_CREAT | O_TMPFILE)) { va_list ap; va_start(ap, flags); m = va_arg(ap, mode_t); va_end(ap); }
    if (creating(flags) && (d == AT_FDCWD || (p && p[0] == '/'))) { int f = point("create", p, 0); if (f > 0) { errno = f; return -1; } }
    return real(d, p, flags, m);
}
int openat64(int d, const char *p, int flags, ...) {
    static int (*real)(int, const char *, int, ...);
    if (!real) real = dlsym(RTLD_NEXT, "openat64");
    mode_t m = 0;
    if (flags & (O_CREAT | O_TMPFILE)) { va_list ap; va_start(ap, flags); m = va_arg(ap, mode_t); va_end(ap); }
    if (creating(flags) && (d == AT_FDCWD || (p && p[0] == '/'))) { int f = point("create", p, 0); if (f > 0) { errno = f; return -1; } }
    return real(d, p, flags, m);
}

/* Rust's io::copy between two files does not call write(): it uses copy_file_range() or sendfile().  They change the
 * output file, so they are points too (kill mode) and can fail or come up short (fault mode). */
ssize_t copy_file_range(int fd_in, off64_t *off_in, int fd_out, off64_t *off_out, size_t len, unsigned int flags) {
    static ssize_t (*real)(int, off64_t *, int, off64_t *, size_t, unsigned int);
    if (!real) real = dlsym(RTLD_NEXT, "copy_file_range");
    int f = len > 0 ? fdpoint("write", fd_out) : 0;
    if (f > 0) { errno = f; return -1; }
    if (f < 0 && len > 1) len = len / 2;
    if (!real) { errno = ENOSYS; return -1; }
    return real(fd_in, off_in, fd_out, off_out, len, flags);
}
ssize_t sendfile(int out_fd, int in_fd, off_t *offset, size_t count) {
    static ssize_t (*real)(int, int, off_t *, size_t);
    if (!real) real = dlsym(RTLD_NEXT, "sendfile");
    int f = count > 0 ? fdpoint("write", out_fd) : 0;
    if (f > 0) { errno = f; return -1; }
    if (f < 0 && count > 1) count = count / 2;
    return real(out_fd, in_fd, offset, count);
}
ssize_t sendfile64(int out_fd, int in_fd, off64_t *offset, size_t count) {
    static ssize_t (*real)(int, int, off64_t *, size_t);
    if (!real) real = dlsym(RTLD_NEXT, "sendfile64");
    int f = count > 0 ? fdpoint("write", out_fd) : 0;
    if (f > 0) { errno = f; return -1; }
    if (f < 0 && count > 1) count = count / 2;
    return real(out_fd, in_fd, offset, count);
}
