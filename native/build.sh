#!/bin/sh
# builds the C helpers (offline, from files on disk)
set -e
D=$(dirname "$0")
mkdir -p "$D/../.cache"
gcc -O1 -shared -fPIC -o "$D/../.cache/crashshim.so" "$D/crashshim/shim.c" -ldl
echo "crashshim.so built"
