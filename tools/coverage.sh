#!/bin/sh
# One-off analysis (not a registered check): which lines of /repo/src do the quick checks execute?
# Builds /repo with -Cinstrument-coverage into a scratch target dir, runs the given checks (default: all, quick) with that
# binary, merges the raw profiles and prints per-file coverage and the uncovered functions.
# usage: coverage.sh [tier] [checks...]      output: /verif/notes/coverage-<tier>.txt
set -e
TIER=${1:-quick}; shift || true
CHECKS=${*:-C01 C02 C03 C04 C05 C06 C07 C08 C09 C10 C11 C12 C13 C14 C15 C16 C17 C18}
W=/tmp/rvcov; rm -rf $W; mkdir -p $W/prof $W/bin
SYS=$(rustc +nightly --print sysroot)/lib/rustlib/x86_64-unknown-linux-gnu/bin
RUSTFLAGS="-Cinstrument-coverage" CARGO_NET_OFFLINE=true cargo build --offline --features verif --manifest-path /repo/Cargo.toml --target-dir $W/target >/dev/null 2>&1
cp $W/target/debug/redo $W/bin/
for n in redo-ifchange redo-ifcreate redo-always redo-stamp redo-ood redo-targets redo-sources redo-whichdo redo-log redo-unlocked; do ln -s redo $W/bin/$n; done
cd /verif
for c in $CHECKS; do
  RV_BIN=$W/bin LLVM_PROFILE_FILE="$W/prof/redo-%8m.profraw" RV_EVIDENCE_DIR=$W/evidence ./rv check $c --tier $TIER 2>&1 | tail -1
done
$SYS/llvm-profdata merge -sparse $W/prof/*.profraw -o $W/all.profdata
OUT=/verif/notes/coverage-$TIER.txt
{ echo "# line/region coverage of /repo/src by: $CHECKS ($TIER)"; 
  $SYS/llvm-cov report $W/bin/redo -instr-profile=$W/all.profdata --ignore-filename-regex='(\.cargo|rustc|/target/)' 2>/dev/null;
  echo; echo "# functions never executed";
  $SYS/llvm-cov report $W/bin/redo -instr-profile=$W/all.profdata --ignore-filename-regex='(\.cargo|rustc|/target/)' -show-functions /repo/src/*.rs /repo/src/bin/redo/*.rs 2>/dev/null | awk 'NF>4 && ($NF=="0.00%" || $(NF-3)=="0.00%") {print}' | rustfilt 2>/dev/null || true; } > $OUT 2>&1
$SYS/llvm-cov show $W/bin/redo -instr-profile=$W/all.profdata --ignore-filename-regex='(\.cargo|rustc|/target/)' -show-line-counts-or-regions -Xdemangler=cat > $W/show.txt 2>/dev/null || true
echo "report: $OUT ; annotated source: $W/show.txt"
