#!/bin/sh
# usage: try_patch.sh <patch-file> <tier> <check>...   -- apply a patch to /repo, run checks, undo it
P=$1; T=$2; shift 2
cd /repo || exit 2
[ -z "$(git status --porcelain -- src)" ] || { echo "/repo has uncommitted changes"; exit 2; }
git apply "$P" || { echo "patch does not apply"; exit 2; }
cd /verif
for c in "$@"; do
  echo "---- $(basename $P) vs $c ($T)"
  RV_EVIDENCE_DIR=/tmp/rv-matrix-evidence timeout 3000 ./rv check $c --tier $T > /tmp/try_patch.$$.out 2>&1
  grep -E "key=" /tmp/try_patch.$$.out | cut -c1-220 | head -${SHOW:-3}
  grep -E "^$c $T|rv: cargo build" /tmp/try_patch.$$.out | cut -c1-200
done
rm -f /tmp/try_patch.$$.out
cd /repo && git checkout -- . && echo "(reverted)"
