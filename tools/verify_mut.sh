#!/bin/sh
# usage: verify_mut.sh <ID> [<seeded-name>]   -- confirm a seeded change independently, then store it under /verif/seeded/
ID=$1; NAME=${2:-$ID}; W=/tmp/mut/$ID; O=$W/OUT
set -e
cd $W
git diff -- src > /tmp/mut/$ID.cur.diff
[ -s /tmp/mut/$ID.cur.diff ] || { echo "no change in worktree"; exit 2; }
echo "== files changed: $(git diff --stat -- src | tail -1)"
echo "== test suite with the change"
cargo test --workspace --no-fail-fast --offline > /tmp/mut/$ID.test.log 2>&1 || true
grep -E "^test result" /tmp/mut/$ID.test.log
cargo build --offline >/dev/null 2>&1
B=/tmp/mut/$ID.binmut; rm -rf $B; mkdir -p $B; cp target/debug/redo $B/
for n in redo-ifchange redo-ifcreate redo-always redo-stamp redo-ood redo-targets redo-sources redo-whichdo redo-log redo-unlocked; do ln -s redo $B/$n; done
BASE=$(ls -td /verif/.cache/bin/*/ | head -1)
echo "== demo with the change (expect non-zero)"
set +e
env -u MAKEFLAGS sh $O/demo.sh $B > /tmp/mut/$ID.demo.mut.log 2>&1; RM=$?
echo "rc=$RM"; tail -3 /tmp/mut/$ID.demo.mut.log
echo "== demo without the change (expect 0) using $BASE"
env -u MAKEFLAGS sh $O/demo.sh $BASE > /tmp/mut/$ID.demo.base.log 2>&1; RB=$?
echo "rc=$RB"; tail -3 /tmp/mut/$ID.demo.base.log
set -e
mkdir -p /verif/seeded/$NAME
cp /tmp/mut/$ID.cur.diff /verif/seeded/$NAME/patch.diff
cp $O/demo.sh /verif/seeded/$NAME/demo.sh
cp $O/NOTES.md /verif/seeded/$NAME/NOTES.md 2>/dev/null || true
PASS=$(grep -E "^test result: ok" /tmp/mut/$ID.test.log | wc -l); FAILN=$(grep -E "^test result: FAILED" /tmp/mut/$ID.test.log | wc -l)
cat > /verif/seeded/$NAME/meta.json <<EOM
{"property": "$ID", "demo_rc_with_change": $RM, "demo_rc_without_change": $RB, "test_suites_ok": $PASS, "test_suites_failed": $FAILN,
 "confirmed": $( [ $RM -ne 0 ] && [ $RB -eq 0 ] && [ $FAILN -eq 0 ] && echo true || echo false )}
EOM
cat /verif/seeded/$NAME/meta.json
