#!/usr/bin/python3
"""Regenerate MANIFEST.json from the table below (kept in one place so that it stays valid)."""
import json
import os
import subprocess

V = os.path.dirname(os.path.dirname(os.path.abspath(__file__)))
TB = 'trusted base: rvlib reference model / oracles, generated instrumented scripts, kernel O_APPEND ordering of the unified trace, /proc for the stuck detector'
CHECKS = {
 'C01': ('exploration', 'Held on every exit-0 command of the generated histories: every target in the requested closure equals, byte for byte, an oracle evaluation of the graph; also after failing commands for everything the model says was brought up to date. Exploration is the right level: the property quantifies over graphs and histories that only generated executions of the real binary reach.', '4/C01', 'content oracle over generated histories (reference model + pure-function scripts)'),
 'C02': ('exploration', 'Per command the multiset of script executions in the unified trace equals what the reference model (the property\'s iff-list) predicts; two keyed known findings are reported separately.', '4/C02', 'execution trace vs reference model over generated histories'),
 'C03': ('exploration', 'C02\'s oracle plus content oracle on graphs rich in (nested) checksummed targets with checksum-preserving and checksum-changing edits.', '4/C03', 'trace + contents vs reference model, checksum-biased generator'),
 'C05': ('exploration', 'Exit status of every top-level and nested command, executed multiset, contents after --keep-going, and a per-process hook monitor (no job started after a known failure) over failure-rich histories.', '4/C05', 'trace/exit-status monitors + reference model over failure-rich histories'),
 'C09': ('exploration', 'Gate-driven enumeration of the ready-sets of one event loop per wake-up plus stress scenarios (wide fans, aliases, contending invocations, crossed orders, random parallel histories); oracle: no abort, no confirmed stuck state, exit 0 when all scripts succeed, tokens conserved on gate paths.', '4/C09', 'select()-gate schedule enumeration + stress with panic/stuck/exit monitors'),
 'C11': ('exploration', 'Fingerprints (inode, size, mtime, bytes) of user-owned files around every command, trace-level proof that their scripts never ran, content oracle for dependents, rebuild after removal, override warning.', '4/C11', 'file fingerprint monitor + ownership automaton over generated histories'),
 'C14': ('exploration', 'Executed multiset per command vs reference model for ifcreate watchers and always nodes, plus error probes for redo-ifcreate.', '4/C14', 'trace vs reference model, ifcreate/always-biased generator'),
 'C17': ('exploration', 'Model lower/upper bounds on redo-ood, role checks on redo-targets/redo-sources against the database and the file system, and a twin replay with/without the queries.', '4/C17', 'query output vs model bounds + differential twin replay'),
}


def main():
    props = [json.loads(l) for l in open(os.path.join(V, 'properties.jsonl'))]
    hooks = subprocess.run(['git', '-C', '/repo', 'log', '--format=%h %s'], capture_output=True, text=True).stdout.split('\n')
    hook_commits = [l.split()[0] for l in hooks if l and ('verification hook' in l.lower() or 'verif hook' in l.lower() or 'verif:' in l.lower())]
    checks, na = [], []
    for p in props:
        i = p['id']
        if i in CHECKS and os.path.exists(os.path.join(V, 'rvlib', 'checks', i.lower() + '.py')):
            cat, text, ref, tech = CHECKS[i]
            checks.append(dict(property_id=i, quick_cmd='./rv check %s --tier quick' % i, thorough_cmd='./rv check %s --tier thorough' % i,
                               evidence_file='evidence/%s.json' % i, replay_cmd_template='./rv check %s --replay {path}' % i, engine='rv',
                               level_claimed=dict(category=cat, text=text, design_ref='DESIGN.md §' + ref), level_note=TB, technique=tech))
        else:
            na.append(dict(property_id=i, reason='check not implemented yet in this commit (planned, see DESIGN.md §4)'))
    man = dict(version=1, setup_cmd='./rv setup',
               hooks=dict(guard='verif (cargo feature, off by default)',
                          enable='cargo build --offline --features verif --manifest-path /repo/Cargo.toml --target-dir /verif/.cache/target',
                          baseline_off_cmd='cd /repo && cargo test --workspace --no-fail-fast --offline', source_commits=hook_commits, add_only=True),
               engines=[dict(name='rv', path='rv', serves_properties=[c['property_id'] for c in checks],
                             kind_free_text='python harness driving the real redo binary (built from /repo with --features verif) under runtime monitors')],
               checks=checks, notes='see DESIGN.md; known_findings.json lists keyed findings and fixed defects', not_applicable=na)
    json.dump(man, open(os.path.join(V, 'MANIFEST.json'), 'w'), indent=1)
    print('checks:', [c['property_id'] for c in checks], 'n/a:', [x['property_id'] for x in na])


main()
