#!/usr/bin/python3
"""Regenerate MANIFEST.json from the table below (kept in one place so that it stays valid)."""
import json
import os
import subprocess

V = os.path.dirname(os.path.dirname(os.path.abspath(__file__)))
TB = 'trusted base: rvlib reference model / oracles, generated instrumented scripts, kernel O_APPEND ordering of the unified trace, /proc for the stuck detector'
CHECKS = {
 'C01': ('exploration', 'Held on every exit-0 command of the generated histories: every target in the requested closure equals, byte for byte, an oracle evaluation of the graph; also after failing commands for everything the model says was brought up to date. Exploration is the right level: the property quantifies over graphs and histories that only generated executions of the real binary reach. I/O-fault layer: the same oracle after commands in which a libc call of redo failed or was short (ENOSPC/EIO/EACCES, once or persistently) and after the fault-free commands that follow.', '4/C01', 'content oracle over generated histories (reference model + pure-function scripts) + I/O-fault injection (LD_PRELOAD) with the same content oracle'),
 'C02': ('exploration', 'Per command the multiset of script executions in the unified trace equals what the reference model (the property\'s iff-list) predicts; two keyed known findings are reported separately. Retry layer: a target that fails for a transient reason and is retried with a forced redo until it succeeds in the same run is not run again by the next commands.', '4/C02', 'execution trace vs reference model over generated histories'),
 'C03': ('exploration', 'C02\'s oracle plus content oracle on graphs rich in (nested) checksummed targets with checksum-preserving and checksum-changing edits.', '4/C03', 'trace + contents vs reference model, checksum-biased generator'),
 'C05': ('exploration', 'Exit status of every top-level and nested command, executed multiset, contents after --keep-going, and a per-process hook monitor (no job started after a known failure) over failure-rich histories. Nested-redo, lock-contention and shared-failing-target layers (two requests for one failing target inside a run, the second begun while its script runs or after it failed).', '4/C05', 'trace/exit-status monitors + reference model over failure-rich histories'),
 'C09': ('exploration', 'Gate-driven enumeration of the ready-sets of one event loop per wake-up plus stress scenarios (wide fans, aliases, contending invocations, crossed orders, random parallel histories); oracle: no abort, no confirmed stuck state, exit 0 when all scripts succeed, tokens conserved on gate paths.', '4/C09', 'select()-gate schedule enumeration + stress with panic/stuck/exit monitors'),
 'C11': ('exploration', 'Fingerprints (inode, size, mtime, bytes) of user-owned files around every command, trace-level proof that their scripts never ran, content oracle for dependents, rebuild after removal, override warning. I/O-fault layer: the fingerprint oracle around commands in which a libc call of redo failed.', '4/C11', 'file fingerprint monitor + ownership automaton over generated histories + I/O-fault injection with the fingerprint oracle'),
 'C14': ('exploration', 'Executed multiset per command vs reference model for ifcreate watchers and always nodes, plus error probes for redo-ifcreate; not-before layer (somebody else fails to build the watched path) and appears-as layer (the path appears as a directory, a link to one, a fifo, below new directories).', '4/C14', 'trace vs reference model, ifcreate/always-biased generator'),
 'C04': ('exploration', 'Exhaustive product of script behaviours x output sizes x prior target states, one command each, with an inotify event log, a concurrent reader and a strace-attributed subset; expected post-state is known from the generator. I/O-fault layer: after a command in which a create/write/rename/unlink of redo failed or was short every target is its previous content or the complete new one.', '4/C04', 'behaviour-product enumeration with inotify/strace/reader monitors + I/O-fault injection (LD_PRELOAD) with an old-or-complete oracle'),
 'C06': ('exploration', 'Three independent monitors under contending invocations with injected delays and aborts: order monitor over the unified trace, hook lock monitor (mutual exclusion, script alive without a holder, released before recorded), atomic F_GETLK probes of live scripts; hand-over scenario.', '4/C06', 'trace order monitor + hook-event monitor under contention and delay injection'),
 'C07': ('exploration', 'Twin replay: same pre-history in two sandboxes, then serial vs scheduled run; compares files, exit status and a normalised database; per-run execution counts from the trace. Hand-edit layer: a generated file below a diamond edited by hand several times - one execution per script per invocation, nothing in the next.', '4/C07', 'serial-vs-parallel twin comparison (files, status, normalised DB) with delay injection'),
 'C08': ('exploration', 'Harness-owned token and cheat pipes (byte accounting), on-exit self-check of own and nested jobservers, work-section overlap from the trace, per-process token ledger from hook events, gate-driven coincidences; borrowed-slot scenarios. I/O-fault layer: the harness-owned pipe is conserved after commands that left through an I/O error.', '4/C08', 'token conservation ledger (pipe bytes + hook events) and overlap monitor + I/O-fault injection with the pipe ledger'),
 'C10': ('fault_enumeration', 'LD_PRELOAD shim kills one process or the whole tree immediately before every state-changing libc call of a build; recovery protocol judged by content oracle.', '4/C10', 'crash-point enumeration (LD_PRELOAD kill shim) + recovery oracle'),
 'C12': ('exploration', 'Systematic product of cycle length x prefix x siblings x entry node x -j x re-run; stuck detector and exit-status oracle. Sibling layer: an acyclic job that waits for a member of the cycle while a member asks for it and the next member in one list.', '4/C12', 'cycle scenario enumeration with stuck detector'),
 'C13': ('exploration', 'Independent reference of candidate order and $1/$2/$3/cwd compared with redo-whichdo, with what the executed script echoes, and with possible_do_files called directly; add/remove mutation step.', '4/C13', 'differential against an independent reference (commands + direct calls)'),
 'C15': ('exploration', 'Exhaustive small-alphabet enumeration of the exported path functions against an independent reference and the kernel, Miri on a subset, command-level spelling pairs against Files rows and the trace.', '4/C15', 'exhaustive direct-call differential + Miri + command-level alias monitor'),
 'C16': ('exploration', 'Barrier-released concurrent invocations (builds and queries, existing and fresh projects) with delay injection; exit status/error text, integrity_check, row presence.', '4/C16', 'concurrent invocation stress with DB integrity and row-presence monitors'),
 'C18': ('exploration', 'Unique-id lines written by scripts are matched against the live raw log stream and redo-log replay; parse/format round trips of Meta called directly (exhaustive small + random + Miri).', '4/C18', 'exactly-once/in-order log monitor + direct round-trip enumeration'),
 'C17': ('exploration', 'Model lower/upper bounds on redo-ood, role checks on redo-targets/redo-sources against the database and the file system, and a twin replay with/without the queries.', '4/C17', 'query output vs model bounds + differential twin replay'),
}


def main():
    props = [json.loads(l) for l in open(os.path.join(V, 'properties.jsonl'))]
    hooks = subprocess.run(['git', '-C', '/repo', 'log', '--format=%h %s'], capture_output=True, text=True).stdout.split('\n')
    hook_commits = [l.split()[0] for l in hooks if l and ('verification hook' in l.lower() or 'verif hook' in l.lower() or 'verif:' in l.lower())]
    checks, na = [], []
    try:
        res = json.load(open(os.path.join(V, 'seeded', 'RESULTS.json')))
    except (OSError, ValueError):
        res = {}
    caught = {}
    for name, r in res.items():
        for k, v in r.items():
            if k.startswith('_'):
                continue
            c, tier = k.split('/')
            try:
                neut = json.load(open(os.path.join(V, 'seeded', name, 'meta.json'))).get('neutralised_by')
            except (OSError, ValueError):
                neut = None
            caught.setdefault(c, []).append('%s%s' % (name, '' if v.get('caught') else (' (neutralised by fix %s)' % neut if neut else ' (missed)')))
    for p in props:
        i = p['id']
        if i in CHECKS and os.path.exists(os.path.join(V, 'rvlib', 'checks', i.lower() + '.py')):
            cat, text, ref, tech = CHECKS[i]
            checks.append(dict(property_id=i, quick_cmd='./rv check %s --tier quick' % i, thorough_cmd='./rv check %s --tier thorough' % i,
                               evidence_file='evidence/%s.json' % i, replay_cmd_template='./rv check %s --replay {path}' % i, engine='rv',
                               level_claimed=dict(category=cat, text=text, design_ref='DESIGN.md §' + ref),
                               level_note=TB + '; seeded breaking changes run against this check (quick tier, see seeded/RESULTS.json and DESIGN.md 9.5): ' + (', '.join(sorted(caught.get(i, []))) or 'none'), technique=tech))
        else:
            na.append(dict(property_id=i, reason='check not implemented yet in this commit (planned, see DESIGN.md §4)'))
    man = dict(version=1, setup_cmd='./rv setup',
               hooks=dict(guard='verif (cargo feature, off by default)',
                          enable='cargo build --offline --features verif --manifest-path /repo/Cargo.toml --target-dir /verif/.cache/target',
                          baseline_off_cmd='cd /repo && cargo test --workspace --no-fail-fast --offline', source_commits=hook_commits, add_only=True),
               engines=[dict(name='rv', path='rv', serves_properties=[c['property_id'] for c in checks],
                             kind_free_text='python harness driving the real redo binary (built from /repo with --features verif) under runtime monitors')],
               checks=checks, notes='see DESIGN.md; known_findings.json lists keyed findings and fixed defects', not_applicable=na)
    json.dump(man, open(os.path.join(V, 'MANIFEST.json'), 'w'), indent=1)
    print('checks:', [c['property_id'] for c in checks], 'n/a:', [x['property_id'] for x in na])


main()
