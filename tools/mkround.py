import json, os, subprocess, sys
R = sys.argv[1]; props = sys.argv[2:]
P = {}
for l in open('/verif/properties.jsonl'):
    d = json.loads(l); P[d['id']] = d
USED = {}
for n in sorted(os.listdir('/verif/seeded')):
    mp = '/verif/seeded/%s/meta.json' % n
    if os.path.exists(mp):
        m = json.load(open(mp))
        if m.get('round') != 'own' and m.get('change'):
            USED.setdefault(m['property'], []).append(m['change'])
for p in props:
    W = '/tmp/mut/%s-%s' % (R, p)
    subprocess.run(['git', '-C', '/repo', 'worktree', 'add', '-q', '--detach', W, 'HEAD'], check=True)
    os.makedirs(W + '/OUT', exist_ok=True)
    d = P[p]
    text = json.dumps({k: v for k, v in d.items()}, indent=1, ensure_ascii=False)
    used = '\n'.join('- ' + u for u in USED.get(p, [])) or '- (none)'
    open(W + '/OUT/TASK.md', 'w').write('''# Task

You are in `%(W)s`, a scratch git worktree of a Rust program: a port of apenwarr's `redo` build system
(SQLite-backed dependency state in `.redo/`, fcntl locks per target, GNU-make-compatible jobserver). It builds offline
(`CARGO_NET_OFFLINE=true cargo build --offline`) and its tests pass (`cargo test --workspace --no-fail-fast --offline`).
Work only inside this directory and in `mktemp -d` scratch directories under /tmp. Do not read /verif or /repo.
There is no network.

This program is meant to have the following property (given as a JSON record; the `anchors` name the code it lives in):

```
%(text)s
```

## What to do

Make ONE small, realistic change to the source under `src/` such that

1. the program still compiles (plain and with `--features verif`) and the whole existing test suite still passes, and
2. the property above no longer holds - but only under some specific circumstance: a particular interleaving of two
   commands, a crash or I/O error at a particular point, a multi-step history (several builds and edits in a particular
   order), an unusual but legitimate input (names, directory layout, environment, flags), or two code sites that
   cooperate. A change that breaks every build, or the most ordinary one, is of no use.

It should look like something a maintainer could write by mistake or as a plausible "simplification"/"optimisation" -
not sabotage, no dead code, no special-casing of names. Keep the diff small (usually under 15 lines). Do not touch
tests, Cargo.toml or anything outside `src/`. Do not commit; leave the change in the working tree.

Earlier rounds already used these ideas for this property; choose something different in kind (another code path,
another circumstance):

%(used)s

Then write, in `%(W)s/OUT/`:

- `demo.sh`: a POSIX shell script taking one argument, a directory that contains the binaries `redo`, `redo-ifchange`,
  `redo-ifcreate`, `redo-always`, `redo-stamp`, `redo-ood`, `redo-targets`, `redo-sources`, `redo-whichdo`, `redo-log`,
  `redo-unlocked` (all links to `redo`). It must put that directory first in PATH, work in its own `mktemp -d` directory
  (and remove it), `unset MAKEFLAGS`, drive the circumstance, and exit 0 when the property holds and non-zero when it is
  violated, printing what it saw. It must exit 0 with the unchanged program and non-zero with your change, reliably
  (run each at least three times; build the unchanged binaries with `git stash` / `git stash pop` or a second target
  directory `--target-dir /tmp/<something>` that you remove afterwards). Finish within a minute.
- `NOTES.md`: what you changed, why it compiles and passes the tests, what exact circumstance makes it show, and what it
  breaks for the user.

While you read the code: if you notice that the UNCHANGED program already violates this property (or a closely
related promise) in some circumstance, say so at the end of NOTES.md under a heading `## Observations on the unchanged
program`, with a reproduction recipe. That is as valuable as the change itself.

Your final answer: three lines - the file(s)/function changed, the circumstance needed, and whether demo.sh behaves as
required with and without the change (how many times you ran each).
''' % dict(W=W, text=text, used=used))
    print('prepared', W)
