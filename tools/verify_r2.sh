#!/bin/sh
# usage: verify_r2.sh <PROP> <seeded-name> [round-prefix, default r2]  -- confirm the change left by a sub-agent in /tmp/mut/r2-<PROP> independently and store it
P=$1; NAME=$2; R=${3:-r2}; W=/tmp/mut/$R-$P; O=$W/OUT; L=/tmp/mut/$R-$P.verify
set -e
cd $W
git diff -- src > $L.diff
[ -s $L.diff ] || { echo "no change in worktree"; exit 2; }
echo "== files changed: $(git diff --stat -- src | tail -1)"
echo "== builds (plain, verif feature)"
CARGO_NET_OFFLINE=true cargo build --offline >/dev/null 2>&1 && echo plain ok
CARGO_NET_OFFLINE=true cargo build --offline --features verif >/dev/null 2>&1 && echo verif ok
CARGO_NET_OFFLINE=true cargo build --offline >/dev/null 2>&1
echo "== test suite with the change"
CARGO_NET_OFFLINE=true cargo test --workspace --no-fail-fast --offline > $L.test.log 2>&1 || true
grep -E "^test result" $L.test.log
B=$L.binmut; rm -rf $B; mkdir -p $B; cp target/debug/redo $B/
for n in redo-ifchange redo-ifcreate redo-always redo-stamp redo-ood redo-targets redo-sources redo-whichdo redo-log redo-unlocked; do ln -s redo $B/$n; done
# unmodified binary: build HEAD of /repo without the verif feature in a throw-away target dir shared by all verifications
BASE=/tmp/mut/basebin
if [ ! -x $BASE/redo ] || [ "$(cat $BASE/.head 2>/dev/null)" != "$(git -C /repo rev-parse HEAD)" ]; then
  rm -rf $BASE; mkdir -p $BASE
  (cd /repo && CARGO_NET_OFFLINE=true cargo build --offline --target-dir /tmp/mut/basetarget >/dev/null 2>&1)
  cp /tmp/mut/basetarget/debug/redo $BASE/
  for n in redo-ifchange redo-ifcreate redo-always redo-stamp redo-ood redo-targets redo-sources redo-whichdo redo-log redo-unlocked; do ln -s redo $BASE/$n; done
  git -C /repo rev-parse HEAD > $BASE/.head
fi
set +e
echo "== demo with the change (expect non-zero)"
env -u MAKEFLAGS sh $O/demo.sh $B > $L.demo.mut.log 2>&1; RM=$?
echo "rc=$RM"; tail -3 $L.demo.mut.log
echo "== demo without the change (expect 0)"
env -u MAKEFLAGS sh $O/demo.sh $BASE > $L.demo.base.log 2>&1; RB=$?
echo "rc=$RB"; tail -3 $L.demo.base.log
set -e
mkdir -p /verif/seeded/$NAME
cp $L.diff /verif/seeded/$NAME/patch.diff
cp $O/demo.sh /verif/seeded/$NAME/demo.sh
cp $O/NOTES.md /verif/seeded/$NAME/NOTES.md 2>/dev/null || true
PASS=$(grep -E "^test result: ok" $L.test.log | wc -l); FAILN=$(grep -E "^test result: FAILED" $L.test.log | wc -l)
cat > /verif/seeded/$NAME/meta.json <<EOM
{"property": "$P", "round": "$R", "base_commit": "$(git -C /repo rev-parse --short HEAD)", "demo_rc_with_change": $RM, "demo_rc_without_change": $RB, "test_suites_ok": $PASS, "test_suites_failed": $FAILN,
 "ran": "cargo build (plain and --features verif), cargo test --workspace --no-fail-fast --offline, demo.sh with the changed and with the unchanged binary",
 "confirmed": $( [ $RM -ne 0 ] && [ $RB -eq 0 ] && [ $FAILN -eq 0 ] && [ $PASS -ge 4 ] && echo true || echo false )}
EOM
cat /verif/seeded/$NAME/meta.json
