#!/bin/sh
# usage: try_seeded.sh <seeded-name> <tier> <check>...   -- apply a seeded change to /repo, run checks, undo it
N=$1; T=$2; shift 2
cd /repo || exit 2
[ -z "$(git status --porcelain -- src)" ] || { echo "/repo has uncommitted changes"; exit 2; }
git apply /verif/seeded/$N/patch.diff || { echo "patch does not apply"; exit 2; }
cd /verif
for c in "$@"; do
  echo "---- $N vs $c ($T)"
  RV_EVIDENCE_DIR=/tmp/rv-matrix-evidence timeout 3000 ./rv check $c --tier $T > /tmp/try_seeded.out 2>&1
  grep -E "key=" /tmp/try_seeded.out | cut -c1-220 | head -${SHOW:-3}
  grep -E "^$c $T" /tmp/try_seeded.out | cut -c1-200
done
cd /repo && git checkout -- . && echo "(reverted)"
