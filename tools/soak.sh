#!/bin/sh
# usage: soak.sh <seed> <tier> <check>...  -- run checks in sequence (meant for `vp run --with-repo`): uses the repo snapshot if given
[ -n "$VP_RUN_REPO" ] && export RV_REPO="$VP_RUN_REPO"
S=$1; T=$2; shift 2
./rv setup || exit 2
for c in "$@"; do
  VERIF_SEED=$S ./rv check $c --tier $T 2>&1 | grep -E "^C[0-9]+ (quick|thorough)|VIOLATION|key=|KNOWN-FINDING|inconclusive:" | cut -c1-400
done
