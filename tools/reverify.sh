#!/bin/sh
# usage: reverify.sh <seeded-name>  -- re-apply a stored seeded change in a fresh worktree of /repo HEAD, run the test suite and the demo
N=$1; W=/tmp/mut/rv-$N
git -C /repo worktree remove --force $W 2>/dev/null; rm -rf $W
git -C /repo worktree add -q --detach $W HEAD || exit 2
cd $W && git apply /verif/seeded/$N/patch.diff || { echo "patch does not apply"; git -C /repo worktree remove --force $W; exit 2; }
CARGO_NET_OFFLINE=true cargo test --workspace --no-fail-fast --offline > /tmp/mut/rv-$N.test.log 2>&1
grep -E "^test result" /tmp/mut/rv-$N.test.log
CARGO_NET_OFFLINE=true cargo build --offline >/dev/null 2>&1
B=/tmp/mut/rv-$N.bin; rm -rf $B; mkdir -p $B; cp target/debug/redo $B/
for n in redo-ifchange redo-ifcreate redo-always redo-stamp redo-ood redo-targets redo-sources redo-whichdo redo-log redo-unlocked; do ln -s redo $B/$n; done
env -u MAKEFLAGS sh /verif/seeded/$N/demo.sh $B > /tmp/mut/rv-$N.demo.log 2>&1; echo "demo with change rc=$?"
env -u MAKEFLAGS sh /verif/seeded/$N/demo.sh /tmp/mut/basebin > /tmp/mut/rv-$N.demo0.log 2>&1; echo "demo without change rc=$?"
git -C /repo worktree remove --force $W; rm -rf $B
