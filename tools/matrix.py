#!/usr/bin/python3
"""Apply every seeded change in turn to /repo, run the given tier of the check(s) of the property it breaks
(plus extra checks named on the command line as <seeded>=<C..,C..>), undo it, and record who caught what.
usage: matrix.py <tier> [name ...] [name=C01,C02 ...]"""
import json, os, re, subprocess, sys, time
V = os.path.dirname(os.path.dirname(os.path.abspath(__file__)))
REPO = os.environ.get('RV_REPO') or os.environ.get('VP_RUN_REPO') or '/repo'
if os.environ.get('VP_RUN_REPO'):
    os.environ['RV_REPO'] = os.environ['VP_RUN_REPO']
ALL = ['C%02d' % i for i in range(1, 19)]
os.environ['RV_EVIDENCE_DIR'] = '/tmp/rv-matrix-evidence'
os.makedirs('/tmp/rv-matrix-evidence', exist_ok=True)
tier = sys.argv[1]
sel = {}
for a in sys.argv[2:]:
    if '=' in a:
        n, cs = a.split('=')
        sel[n] = cs.split(',')
    else:
        sel[a] = None
out_path = os.environ.get('MATRIX_OUT') or os.path.join(V, 'seeded', 'RESULTS.json')
results = json.load(open(out_path)) if os.path.exists(out_path) else {}
names = sorted(d for d in os.listdir(os.path.join(V, 'seeded')) if os.path.isdir(os.path.join(V, 'seeded', d)))
for n in names:
    if sel and n not in sel:
        continue
    meta = json.load(open(os.path.join(V, 'seeded', n, 'meta.json')))
    checks = sel.get(n) or [meta['property']] + list(meta.get('also', []))
    if os.environ.get('MATRIX_ALL'):
        checks = [c for c in ALL if '%s/%s' % (c, tier) not in results.get(n, {})]
    if subprocess.run(['git', '-C', REPO, 'status', '--porcelain', '--', 'src'], capture_output=True, text=True).stdout.strip():
        sys.exit(REPO + ' has uncommitted changes')
    if subprocess.run(['git', '-C', REPO, 'apply', os.path.join(V, 'seeded', n, 'patch.diff')]).returncode != 0:
        print(n, 'PATCH DOES NOT APPLY'); results.setdefault(n, {})['_patch'] = 'does not apply'; continue
    try:
        for c in checks:
            t0 = time.time()
            p = subprocess.run(['./rv', 'check', c, '--tier', tier], cwd=V, capture_output=True, text=True, timeout=3600)
            keys = sorted(set(re.findall(r'^  key=(\S+)', p.stdout, re.M)))
            summary = [l for l in p.stdout.split('\n') if l.startswith('%s %s' % (c, tier))]
            results.setdefault(n, {})['%s/%s' % (c, tier)] = dict(caught=p.returncode == 1 and 'VIOLATION' in p.stdout, rc=p.returncode, keys=keys[:6],
                                                                  summary=(summary[0] if summary else p.stdout[-200:] + p.stderr[-300:]), wall=round(time.time() - t0))
            print(n, c, tier, 'CAUGHT' if (p.returncode == 1 and 'VIOLATION' in p.stdout) else ('missed' if p.returncode == 0 else 'CHECK-ERROR rc=%s' % p.returncode), keys[:3], flush=True)
    finally:
        subprocess.run(['git', '-C', REPO, 'checkout', '--', '.'])
    json.dump(results, open(out_path, 'w'), indent=1, sort_keys=True)
