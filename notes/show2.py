import json, sys
for f in sys.argv[1:]:
    d=json.load(open(f)); rp=d['replay']
    print('=====', d['key'], d['what'][:300])
    if 'spec' in rp:
        for n,t in rp['spec']['targets'].items(): print('  ',n,{k:v for k,v in t.items() if v})
        print('  dofiles', rp['spec'].get('dofiles'))
    for h in rp['hist']:
        print('   ', {k:v for k,v in h.items() if k not in ('trace',)} if h['op']!='build' else (h['argv'], 'j', h.get('j'), 'keep', h.get('keep'), 'rc', h.get('rc'), 'ran', h.get('ran'), 'expect', h.get('expect'), h.get('anoms')))
    last=[h for h in rp['hist'] if h['op']=='build'][-1]
    for l in last.get('trace', []):
        if not l.startswith('H '): print('      ', l[:200])
    print(rp.get('last_err','')[-1500:])
