import sys, json
sys.path.insert(0,'/verif')
from rvlib import common, replay, model
orig_rs = model.Model.run_script
def rs(self, n, ctx, why):
    print('    RUN', n, why, 'stack', ctx['stack'], 'done', dict(ctx['done']))
    r = orig_rs(self, n, ctx, why)
    print('    END', n, '->', r)
    return r
model.Model.run_script = rs
stepno = int(sys.argv[3])
def hook(hr, i, op, entry, anoms, ctx):
    return []
replay.replay_history(sys.argv[1], sys.argv[2], times=1, hook=hook)
