import sys
sys.path.insert(0,'/verif')
from rvlib import common, gate
common.ensure_built()
k,slots=int(sys.argv[1]),int(sys.argv[2])
plan=eval(sys.argv[3]) if len(sys.argv)>3 else []
g=gate.GateRun(k,slots)
r=g.run(plan, timeout=8)
print('rc',r['rc'],r['status'],'tokens',r['tokens_back'],r['expect_tokens'])
for s in r['steps']: print(' step',s)
print(r['trace'])
print(r['out'][-800:])
g.close(); common.cleanup_scratch()
