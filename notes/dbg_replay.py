import sys, json
sys.path.insert(0,'/verif')
from rvlib import common, replay
def hook(hr, i, op, entry, anoms, ctx):
    if ctx is not None:
        print(i, op[1], op[2], 'OBS', entry['ran'], 'MODEL', ctx['ran'], 'reasons', ctx['reasons'], 'maybe', ctx['maybe'])
        if anoms:
            print(hr.last_result.err[-3000:])
            for n, r in hr.m.R.items():
                print('     ', n, 'outver', r.outver, 'seen', r.seen, 'extra', r.extra, 'failed', r.failed, 'rm', r.removed_mark, r.removed_run, hr.m.run)
    else:
        print(i, op)
    return []
replay.replay_history(sys.argv[1], sys.argv[2], times=1, hook=hook)
