import sys
sys.path.insert(0,'/verif')
from rvlib import common
import importlib
common.ensure_built()
mod=importlib.import_module('rvlib.checks.'+sys.argv[1].lower())
from rvlib import histcheck
seeds=histcheck.seeds_for(sys.argv[1].upper(),'quick',240)
import time
for r in common.pmap(mod.CASE, seeds):
    if r['verdict']=='inconclusive': print(r['why']); 
common.cleanup_scratch()
