import sys, json, os
sys.path.insert(0, '/verif')
from rvlib import common
import importlib
prop, seed = sys.argv[1], int(sys.argv[2])
common.ensure_built()
mod = importlib.import_module('rvlib.checks.%s' % prop.lower())
r = mod.CASE(seed)
print(r.get('verdict'), r.get('violations'))
if r.get('replay'):
    for h in r['replay']['hist']:
        h = dict(h); h.pop('trace', None); print(h)
