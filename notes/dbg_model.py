import sys, json
sys.path.insert(0,'/verif')
from rvlib import common, histrun
import importlib
prop, seed = sys.argv[1], int(sys.argv[2])
common.ensure_built()
mod = importlib.import_module('rvlib.checks.%s' % prop.lower())
def hook(hr, i, op, entry, anoms, ctx):
    if ctx is not None:
        print(i, op[1], 'ran', ctx['ran'], 'reasons', ctx['reasons'], 'maybe', ctx['maybe'], 'amb', ctx['ambiguous'])
        for n, r in hr.m.R.items():
            print('     ', n, 'outver', r.outver, 'seen', r.seen, 'extra', r.extra, 'failed', r.failed)
    return []
prof = mod.prof(seed) if callable(mod.prof) else mod.prof
r = histrun.run_history(seed, prof, hook=hook)
common.cleanup_scratch()
