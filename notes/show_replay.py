import json, sys
for path in sys.argv[1:]:
    d=json.load(open(path))
    print('=====', d['key'], d['what'][:300])
    rp=d['replay']
    for n,t in rp['spec']['targets'].items(): print('  ',n,{k:v for k,v in t.items() if v})
    print('  dofiles', rp['spec']['dofiles'])
    tr=None
    for h in rp['hist'][-10:]:
        h=dict(h); tr=h.pop('trace',None)
        print('  ',h)
    if tr: print('\n'.join('      '+x for x in tr[-60:]))
    print(rp['last_err'][-800:])
