import sys, json, collections
sys.path.insert(0, '/verif')
from rvlib import common, gen, histrun
def one(seed):
    prof = gen.profile()
    return histrun.run_history(seed, prof)
if __name__ == '__main__':
    n = int(sys.argv[1]); base = int(sys.argv[2]) if len(sys.argv) > 2 else 0
    common.ensure_built()
    keys = collections.Counter(); ex = {}
    tot = collections.Counter()
    for r in common.pmap(one, range(base, base + n)):
        if r.get('verdict') == 'inconclusive':
            print('ERR', r['why'], r.get('tb')); continue
        for k, v in r['stats'].items(): tot[k] += v
        for a in r['anoms']:
            keys[a['key']] += 1
            ex.setdefault(a['key'], (r['seed'], a['what']))
    print(dict(tot))
    for k, c in keys.most_common():
        print(c, k, ex[k])
    common.cleanup_scratch()
