#!/usr/bin/python3
# THROWAWAY spike: random graph + history vs reference model (C01/C02), serial only.
import os, sys, random, subprocess, shutil, hashlib, json, time

BIN = sys.argv[1]
SEED = int(sys.argv[2]); N = int(sys.argv[3])
ROOT = '/tmp/sx/proto'

def cksum(b): return hashlib.sha1(b).hexdigest()[:10]

class Prog:
    def __init__(s, rnd):
        s.rnd = rnd
        ns = rnd.randint(1, 3); nt = rnd.randint(2, 7)
        s.sources = {f's{i}': [0, 0] for i in range(ns)}   # name -> [relevant ver, irrelevant ver]
        s.targets = {}
        names = []
        for i in range(nt):
            kind = rnd.choice(['plain', 'plain', 'plain', 'stamp', 'always', 'plain'])
            pool = list(s.sources) + names
            deps = rnd.sample(pool, rnd.randint(1, min(3, len(pool))))
            s.targets[f't{i}'] = dict(kind=kind, deps=deps, dover=0)
            names.append(f't{i}')
        s.order = names

    def src_bytes(s, n):
        r, i = s.sources[n]
        return f'{n} rel{r}\nirr{i}\n'.encode()

    def write_source(s, d, n, bump):
        p = os.path.join(d, n)
        with open(p, 'wb') as f: f.write(s.src_bytes(n))
        global CLOCK
        CLOCK += 1000000
        os.utime(p, ns=(CLOCK, CLOCK))

    def do_text(s, t):
        T = s.targets[t]
        L = [f'# v{T["dover"]}', 'exec 9>>"$RV_TRACE"', f'echo "S {t} $$" >&9',
             'redo-ifchange ' + ' '.join(T['deps'])]
        if T['kind'] == 'always': L.append('redo-always')
        L.append(f'echo "T {t} v{T["dover"]}" > $3')
        for d in T['deps']:
            if d in s.sources and T['kind'] == 'stamp':
                L.append(f'echo "{d}=$(head -n1 {d} | cksum)" >> $3')   # only relevant part
            else:
                L.append(f'echo "{d}=$(cksum < {d})" >> $3')
        if T['kind'] == 'stamp': L.append('redo-stamp < $3')
        L.append(f'echo "E {t} $$" >&9')
        return '\n'.join(L) + '\n'

    def cksum_sh(s, b):
        # emulate `cksum` output "crc len" via the real tool for simplicity
        p = subprocess.run(['cksum'], input=b, capture_output=True)
        return p.stdout.decode().strip()

    def expected(s, t, memo):
        if t in memo: return memo[t]
        T = s.targets[t]
        out = f'T {t} v{T["dover"]}\n'
        for d in T['deps']:
            if d in s.sources:
                b = s.src_bytes(d)
                if T['kind'] == 'stamp': b = b.split(b'\n')[0] + b'\n'
            else:
                b = s.expected(d, memo)
            out += f'{d}={s.cksum_sh(b)}\n'
        memo[t] = out.encode()
        return memo[t]

CLOCK = int(time.time() * 1e9) - 10**12

class Model:
    def __init__(s, prog):
        s.p = prog
        s.srcver = {n: 0 for n in prog.sources}
        s.rec = {t: dict(built=False, exists=False, seen={}, dover=None, outver=0, content=None) for t in prog.targets}
        s.run = 0
    def closure_update(s, t, ran, forced=False, done=None):
        """bring t up to date; return its version"""
        if done is None: done = {}
        if t in s.srcver: return s.srcver[t]
        if t in done: return s.rec[t]['outver']
        p = s.p; T = p.targets[t]; R = s.rec[t]
        need = forced or (not R['built']) or (not R['exists']) or R['dover'] != T['dover'] or (T['kind'] == 'always')
        vers = {}
        if not need:
            # check declared deps in order (redo checks recorded deps)
            for d in R['seen']:
                v = s.closure_update(d, ran, False, done)
                vers[d] = v
                if v != R['seen'][d]: need = True
                if need and T['kind'] != 'stamp':
                    pass
        if need:
            ran.append(t)
            seen = {}
            for d in T['deps']:
                seen[d] = s.closure_update(d, ran, False, done)
            R['seen'] = seen
            R['dover'] = T['dover']
            R['built'] = True; R['exists'] = True
            newc = p.expected(t, {})
            if T['kind'] == 'stamp':
                if newc != R['content']: R['outver'] += 1
            else:
                R['outver'] += 1
            R['content'] = newc
        done[t] = True
        return R['outver']

def run_cmd(d, bin, argv, trace):
    env = {k: v for k, v in os.environ.items() if not (k.startswith('REDO') or k == 'MAKEFLAGS')}
    env['PATH'] = bin + ':' + env['PATH']; env['RV_TRACE'] = trace; env['RUST_BACKTRACE'] = '0'
    open(trace, 'w').close()
    p = subprocess.run(argv, cwd=d, env=env, capture_output=True, text=True, timeout=60)
    ran = [l.split()[1] for l in open(trace).read().split('\n') if l.startswith('S ')]
    return p.returncode, ran, p.stderr

def main():
    bad = 0
    for case in range(N):
        rnd = random.Random(SEED * 100003 + case)
        d = f'{ROOT}/{SEED}_{case}'
        shutil.rmtree(d, ignore_errors=True); os.makedirs(d)
        p = Prog(rnd); m = Model(p)
        for n in p.sources: p.write_source(d, n, False)
        for t in p.targets: open(f'{d}/{t}.do', 'w').write(p.do_text(t))
        trace = d + '/.trace'
        hist = []
        for step in range(rnd.randint(4, 12)):
            op = rnd.choice(['build', 'build', 'build', 'edit', 'edit_irr', 'touch', 'rm', 'doedit', 'force'])
            if op in ('edit', 'edit_irr', 'touch'):
                n = rnd.choice(list(p.sources))
                if op == 'edit': p.sources[n][0] += 1
                elif op == 'edit_irr': p.sources[n][1] += 1
                p.write_source(d, n, True); m.srcver[n] += 1
                hist.append((op, n)); continue
            t = rnd.choice(p.order)
            if op == 'rm':
                if os.path.exists(f'{d}/{t}'): os.unlink(f'{d}/{t}')
                m.rec[t]['exists'] = False; hist.append((op, t)); continue
            if op == 'doedit':
                p.targets[t]['dover'] += 1
                open(f'{d}/{t}.do', 'w').write(p.do_text(t))
                global CLOCK
                CLOCK += 1000000; os.utime(f'{d}/{t}.do', ns=(CLOCK, CLOCK))
                hist.append((op, t)); continue
            exp = []
            m.closure_update(t, exp, forced=(op == 'force'))
            argv = ['redo', t] if op == 'force' else ['redo-ifchange', t]
            rc, ran, err = run_cmd(d, BIN, argv, trace)
            hist.append((op, t, sorted(exp), sorted(ran), rc))
            problems = []
            if rc != 0: problems.append(f'rc={rc}')
            if sorted(exp) != sorted(ran): problems.append(f'ranset exp={sorted(exp)} got={sorted(ran)}')
            # contents of closure
            def clo(x, acc):
                if x in p.targets and x not in acc:
                    acc.add(x)
                    for y in p.targets[x]['deps']: clo(y, acc)
                return acc
            for x in clo(t, set()):
                want = p.expected(x, {})
                try: got = open(f'{d}/{x}', 'rb').read()
                except FileNotFoundError: got = None
                if got != want: problems.append(f'stale {x}')
            if problems:
                bad += 1
                print('CASE', SEED, case, 'step', step, problems)
                print('  targets', json.dumps(p.targets))
                print('  hist', hist)
                print('  err', err[-400:].replace('\n', ' | '))
                break
        else:
            shutil.rmtree(d, ignore_errors=True)
    print('done bad=', bad, 'of', N)
main()
