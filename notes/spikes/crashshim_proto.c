#define _GNU_SOURCE
#include <dlfcn.h>
#include <stdio.h>
#include <stdlib.h>
#include <string.h>
#include <unistd.h>
#include <fcntl.h>
#include <signal.h>
#include <errno.h>
#include <sys/file.h>
#include <sys/stat.h>
extern char *program_invocation_short_name;
static int is_redo(void){ return strncmp(program_invocation_short_name,"redo",4)==0; }
static int (*real_open)(const char*,int,...);
static ssize_t (*real_write)(int,const void*,size_t);
static int busy;
static void point(const char*op,const char*a,const char*b){
  if(!is_redo()||busy)return;
  const char*cp=getenv("CRASH_CTR"); if(!cp)return;
  const char*root=getenv("CRASH_ROOT"); if(root && a && a[0]=='/' && strncmp(a,root,strlen(root))!=0) return;
  busy=1;
  if(!real_open)real_open=dlsym(RTLD_NEXT,"open");
  if(!real_write)real_write=dlsym(RTLD_NEXT,"write");
  int fd=real_open(cp,O_RDWR|O_CREAT,0644);
  long n=0;
  if(fd>=0){ flock(fd,LOCK_EX); char buf[32]={0}; pread(fd,buf,31,0); n=atol(buf)+1; int l=snprintf(buf,sizeof buf,"%ld\n",n); pwrite(fd,buf,l,0); flock(fd,LOCK_UN); close(fd);}
  const char*lp=getenv("CRASH_LOG");
  if(lp){ int lf=real_open(lp,O_WRONLY|O_APPEND|O_CREAT,0644); if(lf>=0){ char buf[1024]; int l=snprintf(buf,sizeof buf,"%ld %d %s %s %s %s\n",n,getpid(),program_invocation_short_name,op,a?a:"-",b?b:"-"); real_write(lf,buf,l); close(lf);} }
  const char*at=getenv("CRASH_AT");
  if(at && atol(at)==n){ const char*m=getenv("CRASH_MODE"); if(m&&!strcmp(m,"group")) kill(0,SIGKILL); else kill(getpid(),SIGKILL); }
  busy=0;
}
int rename(const char*a,const char*b){ static int(*real)(const char*,const char*); if(!real)real=dlsym(RTLD_NEXT,"rename"); point("rename",a,b); return real(a,b);}
int unlink(const char*a){ static int(*real)(const char*); if(!real)real=dlsym(RTLD_NEXT,"unlink"); point("unlink",a,0); return real(a);}
int ftruncate(int fd, off_t l){ static int(*real)(int,off_t); if(!real)real=dlsym(RTLD_NEXT,"ftruncate"); point("ftruncate","",0); return real(fd,l);}
int ftruncate64(int fd, off_t l){ static int(*real)(int,off_t); if(!real)real=dlsym(RTLD_NEXT,"ftruncate64"); point("ftruncate64","",0); return real(fd,l);}
ssize_t write(int fd,const void*b,size_t n){ if(!real_write)real_write=dlsym(RTLD_NEXT,"write");
  if(is_redo()&&!busy){ struct stat st; if(fstat(fd,&st)==0 && S_ISREG(st.st_mode)){ char p[64],t[512]; snprintf(p,sizeof p,"/proc/self/fd/%d",fd); ssize_t l=readlink(p,t,sizeof t-1); if(l>0){t[l]=0; point("write",t,0);} } }
  return real_write(fd,b,n);}
