#!/usr/bin/python3
# THROWAWAY spike: harness decides which events are ready in each select() wake-up.
import os, sys, subprocess, time, select, shutil, itertools, re

BIN = sys.argv[1]
D = '/tmp/sx/gateproj'

def setup(k):
    shutil.rmtree(D, ignore_errors=True); os.makedirs(D)
    for i in range(1, k + 1):
        os.mkfifo(f'{D}/f{i}')
        open(f'{D}/t{i}.do', 'w').write(f'echo "S t{i} $$" >> "$RV_TRACE"\nread x < f{i}\necho t{i} > $3\necho "E t{i} $$" >> "$RV_TRACE"\n')
    os.mkfifo(f'{D}/req'); os.mkfifo(f'{D}/ack')

def zombie(pid):
    try:
        return open(f'/proc/{pid}/stat').read().split(') ')[1][0] == 'Z'
    except FileNotFoundError:
        return True

def run(k, ntok, plan):
    """plan: list of sets of events per gate step, events 'x<i>' (exit ti) or 'tok'"""
    setup(k)
    r, w = os.pipe(); R, W = 210, 211
    os.dup2(r, R, inheritable=True); os.dup2(w, W, inheritable=True); os.close(r); os.close(w)
    held = ntok - 1           # harness keeps all spare tokens back, hands them out on 'tok'
    env = {k_: v for k_, v in os.environ.items() if not (k_.startswith('REDO') or k_ == 'MAKEFLAGS')}
    env.update(PATH=BIN + ':' + env['PATH'], RV_TRACE=D + '/trace', RUST_BACKTRACE='0', REDO_LOG='0',
               MAKEFLAGS=f' -j --jobserver-auth={R},{W}', REDO_VERIF_LOG=D + '/trace',
               REDO_VERIF_GATE_REQ=D + '/req', REDO_VERIF_GATE_ACK=D + '/ack')
    open(D + '/trace', 'w').close()
    p = subprocess.Popen(['redo-ifchange'] + [f't{i}' for i in range(1, k + 1)], cwd=D, env=env, pass_fds=(R, W),
                         stdout=subprocess.PIPE, stderr=subprocess.STDOUT, text=True)
    step = 0; log = []
    reqfd = os.open(D + '/req', os.O_RDONLY | os.O_NONBLOCK)
    buf = b''
    deadline = time.time() + 20
    while p.poll() is None and time.time() < deadline:
        rl, _, _ = select.select([reqfd], [], [], 0.05)
        if not rl: continue
        chunk = os.read(reqfd, 4096)
        if not chunk: time.sleep(0.01); continue
        buf += chunk
        while b'\n' in buf:
            line, buf = buf.split(b'\n', 1)
            line = line.decode(); log.append(line)
            running = dict(re.findall(r'(t\d+):(\d+)', line))
            ev = plan[step] if step < len(plan) else {'x%s' % n[1:] for n in running} | {'tok'}
            step += 1
            done = []
            for e in sorted(ev):
                if e == 'tok':
                    if held > 0 and 'want_token=true' in line:
                        os.write(W, b't'); held -= 1; done.append('tok')
                elif ('t' + e[1:]) in running:
                    pid = int(running['t' + e[1:]])
                    fd = os.open(f'{D}/f{e[1:]}', os.O_WRONLY); os.write(fd, b'go\n'); os.close(fd)
                    t0 = time.time()
                    while not zombie(pid) and time.time() - t0 < 5: time.sleep(0.002)
                    done.append(e)
            log.append(f'  -> delivered {done}')
            if not done and running == {} and 'want_token=true' not in line:
                pass
            fd = os.open(D + '/ack', os.O_WRONLY); os.write(fd, b'g'); os.close(fd)
    if p.poll() is None:
        p.kill(); rc = 'TIMEOUT'
    else:
        rc = p.returncode
    out = p.stdout.read()
    left = 0
    while select.select([R], [], [], 0)[0]: left += len(os.read(R, 4096))
    os.close(R); os.close(W); os.close(reqfd)
    woke = [l for l in open(D + '/trace').read().split('\n') if l.startswith('WOKE')]
    return rc, left + held, log, woke, out

if __name__ == '__main__':
    k, ntok = 2, 2
    # step1: first select happens when t1 started and we wait for a token to start t2
    plans = {
        'token-only then exits': [{'tok'}, {'x1'}, {'x2'}],
        'exit1+token together': [{'x1', 'tok'}, {'x2'}],
        'exit1 only': [{'x1'}, {'x2'}, set()],
    }
    for name, plan in plans.items():
        rc, tokens, log, woke, out = run(k, ntok, plan)
        print('==', name, 'rc', rc, 'tokens_back', tokens, 'expected', ntok - 1)
        for l in log: print('   ', l)
        for l in woke: print('   ', l)
        m = re.search(r'panicked at [^\n]*\n[^\n]*', out)
        if m: print('    PANIC:', m.group(0).replace('\n', ' | '))
