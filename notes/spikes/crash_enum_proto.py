#!/usr/bin/python3
# THROWAWAY spike: enumerate crash points of a small build, judge the recovery.
import os, sys, subprocess, shutil, collections
BIN = sys.argv[1]; MODE = sys.argv[2]; PROG = sys.argv[3]
SHIM = '/tmp/sx/shim/shim2.so'
ROOT = '/tmp/sx/crashproj'

def mk(d):
    shutil.rmtree(d, ignore_errors=True); os.makedirs(d)
    stamp = 'redo-stamp < $3\n' if PROG == 'stamp' else ''
    open(d + '/mid.do', 'w').write('redo-ifchange src\ncat src > $3\n' + stamp)
    open(d + '/top.do', 'w').write('redo-ifchange mid\necho "top($(cat mid))" > $3\n')
    open(d + '/src', 'w').write('v1\n')

def env(extra):
    e = {k: v for k, v in os.environ.items() if not (k.startswith('REDO') or k == 'MAKEFLAGS')}
    e.update(PATH=BIN + ':' + e['PATH'], RUST_BACKTRACE='0'); e.update(extra); return e

def run(d, argv, extra={}, newsession=False):
    p = subprocess.run(argv, cwd=d, env=env(extra), capture_output=True, text=True, timeout=60, start_new_session=newsession)
    return p.returncode, p.stdout + p.stderr

def check(d, v):
    try: return open(d + '/top').read() == f'top({v})\n' and open(d + '/mid').read() == v + '\n'
    except FileNotFoundError: return False

d = ROOT + '/count'; mk(d)
pre = []
if PROG == 'rebuild':
    run(d, ['redo-ifchange', 'top']); open(d + '/src', 'w').write('v1b\n'); os.utime(d + '/src', ns=(2 * 10**18 // 1000, 2 * 10**18 // 1000))
rc, out = run(d, ['redo-ifchange', 'top'], dict(LD_PRELOAD=SHIM, CRASH_CTR=ROOT + '/ctr', CRASH_LOG=ROOT + '/log', CRASH_ROOT=d))
lines = open(ROOT + '/log').read().split('\n')[:-1]
n = len(lines); print('points', n, 'rc', rc)
os.unlink(ROOT + '/ctr'); os.unlink(ROOT + '/log')
res = collections.Counter(); bad = []
for p in range(1, n + 1):
    d = ROOT + f'/p{p}'; mk(d)
    v = 'v1'
    if PROG == 'rebuild':
        run(d, ['redo-ifchange', 'top']); open(d + '/src', 'w').write('v1b\n'); os.utime(d + '/src', ns=(2 * 10**18 // 1000, 2 * 10**18 // 1000)); v = 'v1b'
    ctr = d + '.ctr'
    try:
        rc, out = run(d, ['redo-ifchange', 'top'], dict(LD_PRELOAD=SHIM, CRASH_CTR=ctr, CRASH_AT=str(p), CRASH_MODE=MODE, CRASH_ROOT=d), newsession=True)
    except subprocess.TimeoutExpired:
        res['crashrun-timeout'] += 1; continue
    # recovery
    sym = []
    try:
        rc1, out1 = run(d, ['redo-ifchange', 'top'])
    except subprocess.TimeoutExpired:
        sym.append('recovery-timeout'); rc1, out1 = -1, ''
    if rc1 != 0: sym.append(f'recovery-rc={rc1}')
    if 'panicked' in out1: sym.append('panic')
    if 'you modified it' in out1: sym.append('override-warning')
    if rc1 == 0 and not check(d, v): sym.append('stale-after-recovery')
    open(d + '/src', 'w').write('v2\n'); os.utime(d + '/src', ns=(3 * 10**18 // 1000, 3 * 10**18 // 1000))
    try:
        rc2, out2 = run(d, ['redo-ifchange', 'top'])
    except subprocess.TimeoutExpired:
        rc2, out2 = -1, ''; sym.append('edit-timeout')
    if rc2 != 0: sym.append(f'edit-rc={rc2}')
    if 'you modified it' in out2: sym.append('override-warning2')
    if rc2 == 0 and not check(d, 'v2'): sym.append('stale-after-edit')
    key = ','.join(sym) or 'ok'
    res[key] += 1
    if sym: bad.append((p, lines[p - 1].split(' ', 2)[2], key))
    shutil.rmtree(d, ignore_errors=True)
    if os.path.exists(ctr): os.unlink(ctr)
print(dict(res))
for b in bad: print(' ', b)
