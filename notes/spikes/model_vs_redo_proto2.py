#!/usr/bin/python3
# THROWAWAY spike 2: default rules, .do override add/remove, dynamic deps, failing nodes (-j1, with/without -k)
import os, sys, random, subprocess, shutil, json, time

BIN = sys.argv[1]; SEED = int(sys.argv[2]); N = int(sys.argv[3])
ROOT = '/tmp/sx/proto2'
CLOCK = int(time.time() * 1e9) - 10**12

def tick(p):
    global CLOCK
    CLOCK += 1000000; os.utime(p, ns=(CLOCK, CLOCK))

def cks(b):
    return subprocess.run(['cksum'], input=b, capture_output=True).stdout.decode().strip()

class Prog:
    def __init__(s, rnd, d):
        s.rnd = rnd; s.d = d
        s.src = {f's{i}': 0 for i in range(rnd.randint(2, 3))}
        s.flag = {}                      # target -> 0/1 fail flag (source file t.flag)
        s.T = {}; names = []
        for i in range(rnd.randint(3, 7)):
            ext = rnd.choice(['', '', '.d'])       # .d => built by default.d.do unless override exists
            n = f't{i}{ext}'
            pool = list(s.src) + names
            deps = rnd.sample(pool, rnd.randint(1, min(3, len(pool))))
            s.T[n] = dict(deps=deps, dyn=(rnd.random() < 0.3), sel=list(deps), fail=(rnd.random() < 0.3), over=False, ver=0)
            if s.T[n]['fail']: s.flag[n] = 0
            names.append(n)
        s.order = names
        s.defver = 0

    def srcb(s, n): return f'{n} v{s.src[n]}\n'.encode()

    def script_body(s, n, who):
        # `who` identifies the script flavour: specific:<ver> or default:<ver>
        return '\n'.join([
            f'# {who}', 'exec 9>>"$RV_TRACE"', 'echo "S $1 $$" >&9',
            'set +e',
            'if [ -e "$1.sel" ]; then redo-ifchange "$1.sel"; deps=$(cat "$1.sel"); else deps=$(cat "$1.deps"); fi',
            'if [ -e "$1.flag" ]; then redo-ifchange "$1.flag"; fi',
            'redo-ifchange $deps; rc=$?; echo "RC $1 $rc" >&9; [ $rc = 0 ] || exit $rc',
            'if [ -e "$1.flag" ] && [ "$(cat $1.flag)" = 1 ]; then echo "F $1" >&9; exit 7; fi',
            f'echo "T $1 {who}" > $3',
            'for d in $deps; do echo "$d=$(cksum < $d)" >> $3; done',
            'echo "E $1 $$" >&9', ''])

    def write_all(s):
        d = s.d
        for n in s.src: open(f'{d}/{n}', 'wb').write(s.srcb(n)); tick(f'{d}/{n}')
        open(f'{d}/default.d.do', 'w').write(s.script_body('', f'default:{s.defver}')); tick(f'{d}/default.d.do')
        for n, t in s.T.items():
            open(f'{d}/{n}.deps', 'w').write(' '.join(t['deps']) + '\n')      # static list, not a declared dep
            if t['dyn']: s.write_sel(n)
            if n in s.flag: s.write_flag(n)
            if not n.endswith('.d'): s.write_do(n)

    def write_sel(s, n): p = f'{s.d}/{n}.sel'; open(p, 'w').write(' '.join(s.T[n]['sel']) + '\n'); tick(p)
    def write_flag(s, n): p = f'{s.d}/{n}.flag'; open(p, 'w').write(f'{s.flag[n]}\n'); tick(p)
    def write_do(s, n): p = f'{s.d}/{n}.do'; open(p, 'w').write(s.script_body(n, f'specific:{s.T[n]["ver"]}')); tick(p)

    def who(s, n):
        t = s.T[n]
        if n.endswith('.d') and not t['over']: return f'default:{s.defver}'
        return f'specific:{t["ver"]}'
    def curdeps(s, n): return s.T[n]['sel'] if s.T[n]['dyn'] else s.T[n]['deps']
    def fails(s, n): return s.flag.get(n, 0) == 1

    def expected(s, n, memo):
        if n in memo: return memo[n]
        if n in s.src: return s.srcb(n)
        out = f'T {n} {s.who(n)}\n'
        for d in s.curdeps(n):
            b = s.expected(d, memo)
            if b is None: memo[n] = None; return None
            out += f'{d}={cks(b)}\n'
        memo[n] = None if s.fails(n) else out.encode()
        return memo[n]

class Model:
    def __init__(s, p):
        s.p = p; s.ver = {n: 0 for n in p.src}; s.aux = {}   # aux files (sel/flag) versions
        s.R = {n: dict(built=False, failed=False, exists=False, seen={}, who=None, outver=0) for n in p.T}
    def auxver(s, f): return s.aux.get(f, 0)
    def update(s, n, ran, keep, forced, done, failed_now):
        """returns (ok, version)"""
        p = s.p
        if n in s.ver: return True, s.ver[n]
        R = s.R[n]
        if n in done: return (not R['failed']), R['outver']
        need = forced or not R['built'] or R['failed'] or not R['exists'] or R['who'] != p.who(n)
        if not need:
            for d, v in R['seen'].items():
                if d.endswith('.sel') or d.endswith('.flag'):
                    cur = s.auxver(d)
                else:
                    ok, cur = s.update(d, ran, keep, False, done, failed_now)
                    if not ok: need = True; break      # dirty dep that failed => we are dirty too
                if cur != v: need = True; break
        done[n] = True
        if not need: return True, R['outver']
        ran.append(n)
        seen = {}
        T = p.T[n]
        if T['dyn']: seen[n + '.sel'] = s.auxver(n + '.sel')
        if n in p.flag: seen[n + '.flag'] = s.auxver(n + '.flag')
        depfail = False
        for d in p.curdeps(n):
            ok, v = s.update(d, ran, keep, False, done, failed_now)
            seen[d] = v
            if not ok:
                depfail = True
                if not keep: break
        R['who'] = p.who(n)
        if depfail or p.fails(n):
            R['failed'] = True; R['built'] = True   # record exists; file unchanged
            failed_now.append(n)
            return False, R['outver']
        R['seen'] = seen; R['failed'] = False; R['built'] = True; R['exists'] = True; R['outver'] += 1
        return True, R['outver']

def run_cmd(d, argv, trace):
    env = {k: v for k, v in os.environ.items() if not (k.startswith('REDO') or k == 'MAKEFLAGS')}
    env.update(PATH=BIN + ':' + env['PATH'], RV_TRACE=trace, RUST_BACKTRACE='0')
    open(trace, 'w').close()
    p = subprocess.run(argv, cwd=d, env=env, capture_output=True, text=True, timeout=60)
    tr = open(trace).read().split('\n')
    return p.returncode, [l.split()[1] for l in tr if l.startswith('S ')], p.stderr

def main():
    bad = 0; nfailcmd = 0
    for case in range(N):
        rnd = random.Random(SEED * 100003 + case)
        d = f'{ROOT}/{SEED}_{case}'; shutil.rmtree(d, ignore_errors=True); os.makedirs(d)
        p = Prog(rnd, d); m = Model(p); p.write_all()
        trace = d + '/.trace'; hist = []
        for step in range(rnd.randint(5, 14)):
            op = rnd.choice(['build', 'build', 'build', 'build', 'edit', 'rm', 'doedit', 'defedit', 'override', 'sel', 'flag', 'force'])
            n = rnd.choice(p.order); T = p.T[n]
            if op == 'edit':
                x = rnd.choice(list(p.src)); p.src[x] += 1; open(f'{d}/{x}', 'wb').write(p.srcb(x)); tick(f'{d}/{x}'); m.ver[x] += 1; hist.append((op, x)); continue
            if op == 'rm':
                if os.path.exists(f'{d}/{n}'): os.unlink(f'{d}/{n}')
                m.R[n]['exists'] = False; hist.append((op, n)); continue
            if op == 'doedit':
                if n.endswith('.d') and not T['over']: continue
                T['ver'] += 1; p.write_do(n); hist.append((op, n)); continue
            if op == 'defedit':
                p.defver += 1; open(f'{d}/default.d.do', 'w').write(p.script_body('', f'default:{p.defver}')); tick(f'{d}/default.d.do'); hist.append((op,)); continue
            if op == 'override':
                if not n.endswith('.d'): continue
                if T['over']: os.unlink(f'{d}/{n}.do'); T['over'] = False
                else: T['over'] = True; p.write_do(n)
                hist.append((op, n, T['over'])); continue
            if op == 'sel':
                if not T['dyn']: continue
                k = rnd.randint(1, len(T['deps'])); T['sel'] = rnd.sample(T['deps'], k); p.write_sel(n); m.aux[n + '.sel'] = m.auxver(n + '.sel') + 1
                hist.append((op, n, T['sel'])); continue
            if op == 'flag':
                if n not in p.flag: continue
                p.flag[n] ^= 1; p.write_flag(n); m.aux[n + '.flag'] = m.auxver(n + '.flag') + 1; hist.append((op, n, p.flag[n])); continue
            keep = (op == 'buildk'); exp = []; failed_now = []
            ok, _ = m.update(n, exp, keep, op == 'force', {}, failed_now)
            argv = (['redo'] + (['-k'] if keep else []) + [n]) if op in ('force', 'buildk') and op == 'force' else (['redo-ifchange', n])
            envk = keep
            if keep: argv = ['redo-ifchange', n]
            if keep: os.environ['REDO_KEEP_GOING'] = '1'
            # REDO_KEEP_GOING is stripped by run_cmd (REDO*), so emulate -k via a driver: use `redo -k` on a wrapper? keep simple: skip -k here
            os.environ.pop('REDO_KEEP_GOING', None)
            if keep:
                # cannot pass -k to redo-ifchange; model non-keep instead
                exp = []; failed_now = []; m2 = m  # recompute without keep is not possible after mutation; so avoid: treat as plain build
            rc, ran, err = run_cmd(d, argv, trace)
            hist.append((op, n, sorted(exp), sorted(ran), rc))
            problems = []
            if (rc == 0) != ok: problems.append(f'rc={rc} expected_ok={ok}')
            if not keep and sorted(exp) != sorted(ran): problems.append(f'ranset exp={sorted(exp)} got={sorted(ran)}')
            if not ok: nfailcmd += 1
            if ok and rc == 0:
                def clo(x, acc):
                    if x in p.T and x not in acc:
                        acc.add(x)
                        for y in p.curdeps(x): clo(y, acc)
                    return acc
                for x in clo(n, set()):
                    want = p.expected(x, {})
                    try: got = open(f'{d}/{x}', 'rb').read()
                    except FileNotFoundError: got = None
                    if got != want: problems.append(f'stale {x}')
            if keep: break   # model state unreliable after emulated -k; end this history
            if problems:
                bad += 1
                print('CASE', SEED, case, 'step', step, problems)
                print('  T', json.dumps(p.T)); print('  flags', p.flag)
                print('  hist', hist); print('  err', err[-500:].replace('\n', ' | '))
                break
        else:
            shutil.rmtree(d, ignore_errors=True)
    print('done bad=', bad, 'of', N, 'failing commands seen', nfailcmd)
main()
