import sys, json
sys.path.insert(0, '/verif')
from rvlib import common, gen, histrun
common.ensure_built()
r = histrun.run_history(int(sys.argv[1]), gen.profile())
print(json.dumps(r['spec']['targets'], indent=0))
print(r['spec']['dofiles'])
for h in r['hist']: print(h)
for a in r['anoms']: print('ANOM', a)
print(r['last_err'])
common.cleanup_scratch()
