"""Shared infrastructure: build, sandboxes, command runner, stuck detector, parallel map."""
import fcntl
import hashlib
import json
import multiprocessing
import os
import random
import re
import shutil
import signal
import subprocess
import sys
import tempfile
import time

VERIF = os.path.dirname(os.path.dirname(os.path.abspath(__file__)))
REPO = os.environ.get('RV_REPO', '/repo')
CACHE = os.path.join(VERIF, '.cache')
# (one target directory per source path: cargo does not put the executable of another path's package back in place when it
#  finds that package fresh, so alternating RV_REPO values over one directory would test the wrong binary)
TARGET_DIR = os.path.join(CACHE, 'target' if REPO == '/repo' else 'target-' + hashlib.sha256(REPO.encode()).hexdigest()[:8])
NPROC = int(os.environ.get('RV_JOBS', '0')) or (os.cpu_count() or 4)

REDO_NAMES = ['redo-always', 'redo-ifchange', 'redo-ifcreate', 'redo-log', 'redo-ood',
              'redo-sources', 'redo-stamp', 'redo-targets', 'redo-unlocked', 'redo-whichdo']


def seed():
    try:
        return int(os.environ.get('VERIF_SEED', '1'))
    except ValueError:
        return 1


def log(*a):
    print(*a, file=sys.stderr, flush=True)


# --------------------------------------------------------------------------- build

_BIN = None


def ensure_built():
    """Build /repo's current working tree with the verif feature; return a bin dir."""
    global _BIN
    if _BIN:
        return _BIN
    if os.environ.get('RV_BIN'):
        _BIN = os.environ['RV_BIN']
        return _BIN
    os.makedirs(CACHE, exist_ok=True)
    with open(os.path.join(CACHE, 'build.lock'), 'w') as lk:
        fcntl.flock(lk, fcntl.LOCK_EX)
        env = dict(os.environ, CARGO_NET_OFFLINE='true')
        t0 = time.time()
        p = subprocess.run(['cargo', 'build', '--offline', '--features', 'verif', '--manifest-path',
                            os.path.join(REPO, 'Cargo.toml'), '--target-dir', TARGET_DIR],
                           env=env, stdout=subprocess.PIPE, stderr=subprocess.STDOUT, text=True)
        if p.returncode != 0:
            log(p.stdout[-4000:])
            raise SystemExit('rv: cargo build of %s failed' % REPO)
        exe = os.path.join(TARGET_DIR, 'debug', 'redo')
        h = hashlib.sha256(open(exe, 'rb').read()).hexdigest()[:16]
        bindir = os.path.join(CACHE, 'bin', h)
        if not os.path.exists(os.path.join(bindir, '.ok')):
            os.makedirs(bindir, exist_ok=True)
            tmp = os.path.join(bindir, 'redo.tmp%d' % os.getpid())
            shutil.copy2(exe, tmp)
            os.rename(tmp, os.path.join(bindir, 'redo'))
            for n in REDO_NAMES:
                try:
                    os.symlink('redo', os.path.join(bindir, n))
                except FileExistsError:
                    pass
            open(os.path.join(bindir, '.ok'), 'w').close()
        # keep the bin cache small
        try:
            all_ = sorted((os.path.getmtime(os.path.join(CACHE, 'bin', d)), d) for d in os.listdir(os.path.join(CACHE, 'bin')) if not d.startswith('rvnative'))
            for _, d in all_[:-6]:
                if d != h:
                    shutil.rmtree(os.path.join(CACHE, 'bin', d), ignore_errors=True)
        except OSError:
            pass
        log('rv: built %s in %.1fs -> %s' % (REPO, time.time() - t0, bindir))
    _BIN = bindir
    os.environ['RV_BIN'] = bindir   # inherited by pool workers
    return bindir


_NATIVE = None


def ensure_native():
    """Build the direct-call harness (path dependency on /repo, feature verif); return the executable."""
    global _NATIVE
    if _NATIVE:
        return _NATIVE
    if os.environ.get('RV_NATIVE'):
        _NATIVE = os.environ['RV_NATIVE']
        return _NATIVE
    src = os.path.join(VERIF, 'native', 'harness')
    os.makedirs(CACHE, exist_ok=True)
    with open(os.path.join(CACHE, 'native.lock'), 'w') as lk:
        fcntl.flock(lk, fcntl.LOCK_EX)
        # the crate is assembled under .cache so that its path dependency can point at the tree under test
        hd = os.path.join(CACHE, 'native-crate')
        os.makedirs(os.path.join(hd, 'src'), exist_ok=True)
        shutil.copy(os.path.join(src, 'src', 'main.rs'), os.path.join(hd, 'src', 'main.rs'))
        toml = open(os.path.join(src, 'Cargo.toml')).read().replace('path = "/repo"', 'path = "%s"' % REPO)
        if not os.path.exists(os.path.join(hd, 'Cargo.toml')) or open(os.path.join(hd, 'Cargo.toml')).read() != toml:
            open(os.path.join(hd, 'Cargo.toml'), 'w').write(toml)
        lock_src = os.path.join(REPO, 'Cargo.lock')
        lock_dst = os.path.join(hd, 'Cargo.lock')
        if not os.path.exists(lock_dst):
            shutil.copy(lock_src, lock_dst)
        t0 = time.time()
        p = subprocess.run(['cargo', 'build', '--offline', '--manifest-path', os.path.join(hd, 'Cargo.toml'),
                            '--target-dir', os.path.join(CACHE, 'native-target')],
                           env=dict(os.environ, CARGO_NET_OFFLINE='true'), stdout=subprocess.PIPE, stderr=subprocess.STDOUT, text=True)
        if p.returncode != 0:
            # a stale lockfile is the usual reason: start again from /repo's
            shutil.copy(lock_src, lock_dst)
            p = subprocess.run(['cargo', 'build', '--offline', '--manifest-path', os.path.join(hd, 'Cargo.toml'),
                                '--target-dir', os.path.join(CACHE, 'native-target')],
                               env=dict(os.environ, CARGO_NET_OFFLINE='true'), stdout=subprocess.PIPE, stderr=subprocess.STDOUT, text=True)
        if p.returncode != 0:
            log(p.stdout[-4000:])
            raise SystemExit('rv: cargo build of the native harness failed')
        exe = os.path.join(CACHE, 'native-target', 'debug', 'rvnative')
        h = hashlib.sha256(open(exe, 'rb').read()).hexdigest()[:16]
        dst = os.path.join(CACHE, 'bin', 'rvnative-' + h)
        if not os.path.exists(dst):
            os.makedirs(os.path.dirname(dst), exist_ok=True)
            shutil.copy2(exe, dst + '.tmp%d' % os.getpid())
            os.rename(dst + '.tmp%d' % os.getpid(), dst)
        log('rv: built native harness in %.1fs' % (time.time() - t0))
    _NATIVE = dst
    os.environ['RV_NATIVE'] = dst
    return dst


def native_call(mode, rows, cwd=None, timeout=300, memcheck=False):
    """rows: list of lists of bytes/str fields -> list of lists of str fields (hex where the harness says so).
    With `memcheck` the harness runs under valgrind memcheck; an error report makes the call fail with rc 99."""
    exe = ensure_native()
    inp = []
    for r in rows:
        inp.append('\t'.join(f.hex() if isinstance(f, (bytes, bytearray)) else str(f) for f in r))
    argv = [exe, mode]
    if memcheck:
        argv = ['valgrind', '-q', '--leak-check=no', '--error-exitcode=99'] + argv
    p = subprocess.run(argv, input=('\n'.join(inp) + '\n').encode(), stdout=subprocess.PIPE, stderr=subprocess.PIPE,
                       cwd=cwd, timeout=timeout, env=base_env())
    if p.returncode != 0:
        return None, p.returncode, p.stderr.decode('utf-8', 'replace')
    out = [l.split('\t') for l in p.stdout.decode().split('\n')[:-1]]
    return out, 0, p.stderr.decode('utf-8', 'replace')


# --------------------------------------------------------------------------- sandbox

_SCRATCH = None


def _ancestors_clean(path):
    p = os.path.abspath(path)
    while True:
        try:
            names = os.listdir(p)
        except OSError:
            names = []
        if '.redo' in names:
            return False
        if any(n.startswith('default') and n.endswith('.do') for n in names):
            return False
        if p == '/':
            return True
        p = os.path.dirname(p)


def scratch_root():
    """A per-process-tree scratch root whose ancestors contain no .redo / default*.do."""
    global _SCRATCH
    if _SCRATCH:
        return _SCRATCH
    if os.environ.get('RV_SCRATCH_ROOT'):
        _SCRATCH = os.environ['RV_SCRATCH_ROOT']
        return _SCRATCH
    for base in [os.environ.get('RV_SCRATCH'), '/dev/shm', '/tmp', tempfile.gettempdir()]:
        if not base or not os.path.isdir(base) or not os.access(base, os.W_OK):
            continue
        if not _ancestors_clean(base):
            continue
        _SCRATCH = tempfile.mkdtemp(prefix='rv-', dir=base)
        os.environ['RV_SCRATCH_ROOT'] = _SCRATCH
        return _SCRATCH
    raise SystemExit('rv: no usable scratch directory')


def cleanup_scratch():
    global _SCRATCH
    if os.environ.get('RV_KEEP'):
        return
    if _SCRATCH and os.path.isdir(_SCRATCH):
        shutil.rmtree(_SCRATCH, ignore_errors=True)
    _SCRATCH = None
    os.environ.pop('RV_SCRATCH_ROOT', None)


def new_dir(tag):
    d = tempfile.mkdtemp(prefix=tag + '-', dir=scratch_root())
    return d


def rmtree(d):
    shutil.rmtree(d, ignore_errors=True)


def base_env(extra=None):
    env = {k: v for k, v in os.environ.items()
           if not (k.startswith('REDO') or k in ('MAKEFLAGS', 'DO_BUILT', 'MFLAGS', 'CDPATH'))}
    env['PATH'] = ensure_built() + ':/usr/bin:/bin'
    env['RUST_BACKTRACE'] = '0'
    env['LC_ALL'] = 'C'
    if extra:
        env.update(extra)
    return env


# --------------------------------------------------------------------------- process inspection

def session_pids(sid):
    out = []
    for d in os.listdir('/proc'):
        if not d.isdigit():
            continue
        try:
            st = open('/proc/%s/stat' % d).read()
        except OSError:
            continue
        rp = st.rfind(')')
        f = st[rp + 2:].split()
        # f[0]=state f[1]=ppid f[2]=pgrp f[3]=session
        if int(f[3]) == sid:
            out.append(int(d))
    return out


def proc_info(pid):
    try:
        st = open('/proc/%d/stat' % pid).read()
        rp = st.rfind(')')
        comm = st[st.find('(') + 1:rp]
        f = st[rp + 2:].split()
        try:
            cmd = open('/proc/%d/cmdline' % pid, 'rb').read().split(b'\0')
            argv0 = os.path.basename(cmd[0].decode('utf-8', 'replace')) if cmd and cmd[0] else comm
            args = [c.decode('utf-8', 'replace') for c in cmd[1:] if c]
        except OSError:
            argv0, args = comm, []
        try:
            sc = open('/proc/%d/syscall' % pid).read().split()
            sysno = sc[0]
        except OSError:
            sysno = '?'
        return dict(pid=pid, comm=comm, argv0=argv0, args=args[:6], state=f[0], ppid=int(f[1]),
                    utime=int(f[11]), stime=int(f[12]), syscall=sysno)
    except (OSError, ValueError, IndexError):
        return None


def proc_locks():
    """Parse /proc/locks -> list of dicts (blocked waiters have '->')."""
    out = []
    try:
        for line in open('/proc/locks'):
            f = line.split()
            blocked = f[1] == '->'
            if blocked:
                f = [f[0]] + f[2:]
            if len(f) < 8:
                continue
            out.append(dict(blocked=blocked, cls=f[1], typ=f[3], pid=int(f[4]), inode=f[5],
                            start=f[6], end=f[7]))
    except OSError:
        pass
    return out


SYS_FCNTL, SYS_SELECT, SYS_PSELECT6, SYS_WAIT4, SYS_POLL, SYS_READ = '72', '23', '270', '61', '7', '0'


def stuck_snapshot(sid):
    """One sample of a session: per-process info + whether anything can make progress."""
    infos = [i for i in (proc_info(p) for p in session_pids(sid)) if i]
    return infos


def is_stuck(sid, interval=1.5):
    """Two samples `interval` apart: no CPU consumed, nobody runnable, no script/sleep alive that is
    not itself blocked on a redo process.  Returns (stuck?, witness)."""
    # redo-log (the follower) only mirrors what the others do: it polls with sleeps and ends when its
    # stdin closes, so it can neither make nor prevent progress
    a = {i['pid']: i for i in stuck_snapshot(sid) if i['argv0'] != 'redo-log'}
    time.sleep(interval)
    b = {i['pid']: i for i in stuck_snapshot(sid) if i['argv0'] != 'redo-log'}
    if not b:
        return False, None
    if set(a) != set(b):
        return False, None
    if all(i['state'] == 'Z' for i in b.values()):
        return False, None       # only exited processes that their parent has not reaped yet: the run is over, not stuck
    for pid, i in b.items():
        j = a[pid]
        if i['utime'] + i['stime'] != j['utime'] + j['stime']:
            return False, None
        if i['state'] in ('R', 'D'):
            return False, None
    # every process must be blocked in a way that only another member can end
    for pid, i in b.items():
        if i['state'] == 'Z':
            continue
        a0 = i['argv0']
        if a0.startswith('redo'):
            if i['syscall'] in (SYS_FCNTL, SYS_WAIT4):
                continue
            if i['syscall'] in (SYS_SELECT, SYS_PSELECT6, SYS_POLL, SYS_READ):
                continue     # waits for children / tokens / log pipe: all inside the session
            return False, None
        elif a0 in ('sh', 'dash', 'bash'):
            if i['syscall'] == SYS_WAIT4:
                kids = [k for k in b.values() if k['ppid'] == pid and k['state'] != 'Z']
                if kids:
                    continue
            return False, None
        else:
            return False, None   # sleep, cat, ... can still finish
    locks = [l for l in proc_locks() if l['pid'] in b]
    witness = dict(procs=[dict(pid=i['pid'], ppid=i['ppid'], argv0=i['argv0'], args=i['args'],
                               state=i['state'], syscall=i['syscall']) for i in b.values()],
                   locks=locks)
    return True, witness


def kill_session(sid):
    for _ in range(5):
        pids = session_pids(sid)
        if not pids:
            return
        for p in pids:
            try:
                os.kill(p, signal.SIGKILL)
            except OSError:
                pass
        time.sleep(0.02)


class Result:
    __slots__ = ('rc', 'out', 'err', 'status', 'witness', 'wall', 'sid')

    def __init__(self, rc, out, err, status, witness=None, wall=0.0, sid=0):
        self.rc, self.out, self.err, self.status, self.witness, self.wall, self.sid = rc, out, err, status, witness, wall, sid

    def panicked(self):
        return self.rc == 101 or 'panicked at' in self.err or 'panicked at' in self.out or (self.rc is not None and self.rc < 0 and -self.rc in (6, 11))


def _stutter(sid, seed, stop):
    """Descheduling injection: again and again stop one redo process of the session for a few (tens of) milliseconds.  A process
    that is continued finds everything that became ready in the meantime - a token, an expired timer, an exited child - in one
    wake-up, which an idle machine hardly ever produces."""
    import random
    waiters = isinstance(seed, tuple) and seed[0] == 'waiters'
    rnd = random.Random(repr(seed))
    while not stop.is_set():
        pids = []
        all_ = session_pids(sid)
        parents = set()
        for pid in all_:
            try:
                st = open('/proc/%d/stat' % pid).read()
                parents.add(int(st[st.rfind(')') + 2:].split()[1]))
            except (OSError, ValueError, IndexError):
                pass
        for pid in all_:
            try:
                if not open('/proc/%d/comm' % pid).read().startswith('redo'):
                    continue
                if waiters:
                    # only processes that sit in their event loop with no child: waiting for a job slot (or for the log)
                    if pid in parents or 'poll_schedule' not in open('/proc/%d/wchan' % pid).read():
                        continue
                pids.append(pid)
            except OSError:
                pass
        if pids:
            pid = rnd.choice(pids)
            try:
                os.kill(pid, signal.SIGSTOP)
                time.sleep(rnd.choice([0.05, 0.12, 0.25, 0.4, 0.7]) if waiters else rnd.choice([0.004, 0.012, 0.02, 0.035, 0.06]))
                os.kill(pid, signal.SIGCONT)
            except OSError:
                pass
        time.sleep(rnd.random() * (0.08 if waiters else 0.02))
    for pid in session_pids(sid):
        try:
            os.kill(pid, signal.SIGCONT)
        except OSError:
            pass


def run_cmd(argv, cwd, env=None, timeout=60.0, stuck_after=6.0, stdin=None, pass_fds=(), preexec=None,
            wait_session=True, merge=False, stutter=None):
    """Run one top-level command in its own session.
    status: 'exit' | 'stuck' (confirmed, with witness) | 'timeout' (inconclusive).
    With wait_session the call also waits until every process of the session is gone
    (background remnants such as redo-log or orphaned scripts)."""
    env = env if env is not None else base_env()
    t0 = time.time()
    p = subprocess.Popen(argv, cwd=cwd, env=env, stdin=subprocess.DEVNULL if stdin is None else stdin,
                         stdout=subprocess.PIPE, stderr=subprocess.STDOUT if merge else subprocess.PIPE,
                         start_new_session=True, pass_fds=pass_fds, preexec_fn=preexec)
    sid = p.pid
    import threading
    bufs = {}

    def rd(name, f):
        bufs[name] = f.read()
    ths = [threading.Thread(target=rd, args=('out', p.stdout))]
    if not merge:
        ths.append(threading.Thread(target=rd, args=('err', p.stderr)))
    for t in ths:
        t.daemon = True
        t.start()
    status = 'exit'
    witness = None
    next_stuck = t0 + stuck_after
    st_stop = threading.Event()
    st_th = None
    if stutter is not None:
        st_th = threading.Thread(target=_stutter, args=(sid, stutter, st_stop), daemon=True)
        st_th.start()
    while True:
        try:
            p.wait(timeout=0.25 if time.time() - t0 > 1 else 0.02)
            if not wait_session or not session_pids(sid):
                break
            # leader gone but remnants alive: wait for them (bounded)
            if time.time() - t0 > timeout:
                status = 'timeout'
                break
            time.sleep(0.01)
            continue
        except subprocess.TimeoutExpired:
            pass
        now = time.time()
        if now >= next_stuck:
            st, w = is_stuck(sid)
            if st:
                status, witness = 'stuck', w
                break
            next_stuck = time.time() + 3.0
        if now - t0 > timeout:
            st, w = is_stuck(sid)
            if st:
                status, witness = 'stuck', w
            else:
                status = 'timeout'
                witness = dict(procs=[dict(pid=i['pid'], argv0=i['argv0'], args=i['args'], state=i['state'],
                                           syscall=i['syscall']) for i in stuck_snapshot(sid)])
            break
    st_stop.set()
    if st_th:
        st_th.join(timeout=2)
    if status != 'exit':
        kill_session(sid)
        try:
            p.wait(timeout=5)
        except subprocess.TimeoutExpired:
            pass
    for t in ths:
        t.join(timeout=5)
    out = (bufs.get('out') or b'').decode('utf-8', 'replace')
    err = (bufs.get('err') or b'').decode('utf-8', 'replace')
    return Result(p.returncode, out, err, status, witness, time.time() - t0, sid)


# --------------------------------------------------------------------------- parallel map

def _init_worker():
    signal.signal(signal.SIGINT, signal.SIG_IGN)


def pmap(fn, items, procs=None, deadline=None, chunksize=1):
    """Unordered parallel map with a soft deadline: items not started before the deadline are skipped.
    Yields results as they complete."""
    procs = procs or NPROC
    ensure_built()
    scratch_root()
    items = list(items)
    if procs <= 1 or len(items) <= 1:
        for it in items:
            if deadline and time.time() > deadline:
                break
            yield fn(it)
        return
    pool = multiprocessing.Pool(procs, initializer=_init_worker)
    try:
        it = pool.imap_unordered(_Deadline(fn, deadline), items, chunksize)
        for r in it:
            if r is not _SKIP and r != '__rv_skip__':
                yield r
    finally:
        pool.terminate()
        pool.join()


_SKIP = '__rv_skip__'


class _Deadline:
    def __init__(self, fn, deadline):
        self.fn, self.deadline = fn, deadline

    def __call__(self, item):
        if self.deadline and time.time() > self.deadline:
            return _SKIP
        try:
            return self.fn(item)
        except Exception as e:   # harness error: inconclusive, never a violation
            import traceback
            return dict(verdict='inconclusive', why='harness-error: %r' % (e,), tb=traceback.format_exc()[-1500:], item=repr(item)[:300])


# --------------------------------------------------------------------------- misc helpers

class Clock:
    """Strictly increasing mtimes for harness edits (the properties exclude edits the stamp cannot see)."""

    def __init__(self):
        self.t = int(time.time() * 1e9) - 10 ** 12

    def tick(self, path):
        self.t += 1_000_000_000
        os.utime(path, ns=(self.t, self.t), follow_symlinks=False)


_CRC = None


def posix_cksum(data):
    """Output of POSIX `cksum` for data read from stdin: '<crc> <len>'."""
    global _CRC
    if _CRC is None:
        t = []
        for i in range(256):
            c = i << 24
            for _ in range(8):
                c = ((c << 1) ^ 0x04C11DB7) & 0xFFFFFFFF if c & 0x80000000 else (c << 1) & 0xFFFFFFFF
            t.append(c)
        _CRC = t
    c = 0
    for b in data:
        c = ((c << 8) & 0xFFFFFFFF) ^ _CRC[((c >> 24) ^ b) & 0xFF]
    n = len(data)
    while n:
        c = ((c << 8) & 0xFFFFFFFF) ^ _CRC[((c >> 24) ^ (n & 0xFF)) & 0xFF]
        n >>= 8
    return '%d %d' % ((~c) & 0xFFFFFFFF, len(data))


def read_file(path):
    try:
        with open(path, 'rb') as f:
            return f.read()
    except (FileNotFoundError, NotADirectoryError, IsADirectoryError):
        return None


def write_file(path, data, clock=None):
    os.makedirs(os.path.dirname(path) or '.', exist_ok=True)
    if isinstance(data, str):
        data = data.encode()
    with open(path, 'wb') as f:
        f.write(data)
    if clock:
        clock.tick(path)


def shash(obj):
    return hashlib.sha1(json.dumps(obj, sort_keys=True, default=str).encode()).hexdigest()[:12]


PANIC_RE = re.compile(r"panicked at [^\n]*(?:\n[^\n]*)?")


def panic_text(s):
    m = PANIC_RE.search(s or '')
    return m.group(0).replace('\n', ' | ')[:300] if m else None
