"""Re-run a recorded case."""
import importlib
import json

from . import common


def _tup(x):
    return tuple(_tup(i) if isinstance(i, list) and False else i for i in x)


def replay_history(prop, path, classes=None, times=3, hook=None):
    d = json.load(open(path))
    rp = d['replay']
    common.ensure_built()
    mod = importlib.import_module('rvlib.checks.%s' % prop.lower())
    ops = [tuple(o) for o in rp['ops']] if rp.get('ops') else None
    if isinstance(rp['seed'], list):
        rp['seed'], ops = tuple(rp['seed']), None
    bad = 0
    for i in range(times):
        res = mod.CASE(rp['seed'], ops=ops, hook=hook)
        print('replay %d: %s %s' % (i, res.get('verdict'), [v['key'] for v in res.get('violations', [])]))
        if res.get('verdict') == 'violated':
            bad += 1
    common.cleanup_scratch()
    if bad:
        print('VIOLATION property=%s replay=%s' % (prop, path))
        return 1
    return 0
