"""Re-run a recorded case."""
import importlib
import json

from . import common


def _tup(x):
    return tuple(_tup(i) if isinstance(i, list) and False else i for i in x)


def replay_history(prop, path, classes=None, times=3, hook=None):
    d = json.load(open(path))
    rp = d['replay']
    common.ensure_built()
    mod = importlib.import_module('rvlib.checks.%s' % prop.lower())
    ops = [tuple(o) for o in rp['ops']] if rp.get('ops') else None
    if isinstance(rp['seed'], list):
        rp['seed'], ops = tuple(rp['seed']), None
    bad = 0
    for i in range(times):
        res = mod.CASE(rp['seed'], ops=ops, hook=hook)
        from .framework import load_known
        known = set(k['key'] for k in load_known() if k.get('property') == prop and k.get('status') == 'known')
        keys = [v['key'] for v in res.get('violations', [])]
        print('replay %d: %s %s%s' % (i, res.get('verdict'), [k for k in keys if k not in known],
                                      (' known findings: %s' % sorted(set(k for k in keys if k in known))) if any(k in known for k in keys) else ''))
        if res.get('verdict') == 'violated' and any(k not in known for k in keys):
            bad += 1
    common.cleanup_scratch()
    if bad:
        print('VIOLATION property=%s replay=%s' % (prop, path))
        return 1
    return 0
