"""Run a generated history against real redo and the reference model, side by side."""
import os
import random
import re
import shutil
import sqlite3

from . import common, gen
from .common import Clock, read_file, write_file, run_cmd, base_env
from .jobserver import HarnessJobserver
from .model import Model
from .prog import parse_trace, executed, overlaps

OVERRIDE_RE = re.compile(r'you modified it; skipping')


class Anomaly(dict):
    """cls: stale | overbuild | underbuild | exit | crash | stuck | multi | override-warning | ..."""


def kinds_of(p, n):
    t = p.targets.get(n, {})
    ks = [k for k in ('stamp', 'always', 'head', 'phony', 'dyn', 'split', 'alias', 'linkout') if t.get(k)]
    if t.get('flag') is not None:
        ks.append('flag')
    if t.get('watch'):
        ks.append('watch')
    if t.get('opt'):
        ks.append('opt')
    if p.chosen_do(n) and not p.chosen_do(n).endswith(n + '.do'):
        ks.append('default')
    return '+'.join(ks) or 'plain'


def reason_class(r):
    return (r or 'none').split(':')[0]


def stamp_below(p, n, seen=None):
    """Is there a checksummed target strictly below n?"""
    seen = set() if seen is None else seen
    for d in (p.curdeps(n) if n in p.targets else []):
        if d in seen:
            continue
        seen.add(d)
        if d in p.targets and (p.targets[d].get('stamp') or stamp_below(p, d, seen)):
            return True
    return False


class HistRunner:
    def __init__(self, prog, tag='h', env_extra=None, verif_log=False):
        self.p = prog
        self.top = common.new_dir(tag)
        self.clock = Clock()
        self.m = Model(prog)
        self.m.reader = lambda n: read_file(self.path(n))
        self.trace = os.path.join(self.top, '.rv-trace')
        self.env_extra = dict(env_extra or {})
        self.verif_log = verif_log
        self.hist = []
        self.anoms = []
        self.stats = dict(commands=0, scripts=0, failing_commands=0, edits=0, maybe=0, ambiguous=0)
        self.reasons_seen = set()
        self.last_build = None
        self.last_result = None
        self.late = set()
        self.last_recs = []
        prog.write_all(self.top, self.clock)

    def close(self):
        if os.environ.get('RV_KEEP'):
            print('KEPT', self.top, 'env: RV_TRACE=%s RV_TOP=%s' % (self.trace, self.top))
            return
        common.rmtree(self.top)

    # ------------------------------------------------------------------ file system ops
    def path(self, n):
        return os.path.join(self.top, n)

    def apply_edit(self, op):
        p, m = self.p, self.m
        k = op[0]
        self.stats['edits'] += 1
        if k in ('edit_r', 'edit_i', 'touch'):
            n = op[1]
            if k == 'edit_r':
                p.sources[n]['r'] += 1
            elif k == 'edit_i':
                p.sources[n]['i'] += 1
            p.write_source(self.top, n, self.clock)
            m.touch_src(n)
        elif k == 'edit_keep':
            # new content of the same length, put in place by rename, with the modification time of the old file (cp -p, rsync -t,
            # a restored tree): only the inode (and the bytes) tell that the file is another one
            n = op[1]
            fp = self.path(n)
            old = self.p.src_bytes(n)
            p.sources[n]['r'] += 1
            new = self.p.src_bytes(n)
            if len(new) != len(old) or not os.path.isfile(fp):
                p.sources[n]['r'] -= 1
                return False
            st = os.stat(fp)
            write_file(fp + '.keeptmp', new)
            os.utime(fp + '.keeptmp', ns=(st.st_atime_ns, st.st_mtime_ns))
            os.rename(fp + '.keeptmp', fp)
            m.touch_src(n)
        elif k == 'edit_back':
            n = op[1]
            if p.sources[n]['r'] <= 0:
                return False
            p.sources[n]['r'] -= 1          # the bytes an earlier version had, with a new mtime
            p.write_source(self.top, n, self.clock)
            m.touch_src(n)
        elif k == 'stampflip':
            n = op[1]
            p.targets[n]['stamp'] = not p.targets[n].get('stamp')
            write_file(os.path.join(self.top, n + '.cfg'), p.cfg_text(n))      # read by the script, not a declared dependency
        elif k == 'rm':
            n = op[1]
            if os.path.lexists(self.path(n)) and n not in p.user:
                os.unlink(self.path(n))
                m.removed(n)
            else:
                return False
        elif k == 'doedit':
            p.dofiles[op[1]] += 1
            p.write_do(self.top, op[1], self.clock)
            m.touch_src(op[1])
        elif k == 'doadd':
            p.dofiles[op[1]] = 0
            p.write_do(self.top, op[1], self.clock)
            m.touch_src(op[1])
        elif k == 'dorm':
            del p.dofiles[op[1]]
            os.unlink(self.path(op[1]))
            m.touch_src(op[1])
        elif k == 'sel':
            p.targets[op[1]]['sel'] = list(op[2])
            p.write_sel(self.top, op[1], self.clock)
            m.touch_src(op[1] + '.sel')
        elif k == 'flag':
            p.targets[op[1]]['flag'] = op[2]
            p.write_flag(self.top, op[1], self.clock)
            m.touch_src(op[1] + '.flag')
        elif k == 'hflag':
            # an undeclared cause of failure: not a dependency, so nothing becomes dirty; any execution of the script fails
            p.targets[op[1]]['hfail'] = bool(op[2])
            fp = self.path(op[1]) + '.hfail'
            if op[2]:
                write_file(fp, b'1\n')
            elif os.path.lexists(fp):
                os.unlink(fp)
        elif k == 'watch':
            w = op[1]
            if op[2] == 'delete':
                p.watch[w] = None
            else:
                p.watch[w] = 0 if p.watch[w] is None else p.watch[w] + 1
            p.write_watch(self.top, w, self.clock)
            m.touch_src(w)
        elif k == 'chmod':
            # the user changes the mode of a generated file: same bytes, size and mtime; the stamp redo recorded no longer matches
            n = op[1]
            fp = self.path(n)
            t = p.targets.get(n, {})
            if n in p.user or t.get('phony') or t.get('linkout') or not os.path.isfile(fp) or os.path.islink(fp) or not m.R[n].built or m.R[n].owner == 'user':
                return False
            st = os.stat(fp)
            # never a mode this file (this inode) has had before: a second chmod must not restore the state redo recorded
            seen = self.__dict__.setdefault('modes_seen', {}).setdefault((n, st.st_ino), set())
            seen.add(st.st_mode & 0o777)
            new_mode = next((mo for mo in (0o600, 0o640, 0o664, 0o666, 0o604, 0o660, 0o606, 0o444, 0o440, 0o400) if mo not in seen), None)
            if new_mode is None:
                return False
            seen.add(new_mode)
            os.chmod(fp, new_mode)
            os.utime(fp, ns=(st.st_atime_ns, st.st_mtime_ns))
            m.R[n].meta_changed = True
        elif k == 'watch_during':
            # the watched path comes into existence while the script that declared it with redo-ifcreate is still running
            # (right before the script ends): the file is parked next to it and the script moves it into place
            w = op[1]
            if p.watch.get(w, 0) is not None or w in p.watch_link or os.path.lexists(self.path(w)):
                return False
            write_file(self.path(w) + '.during', ('%s w0\n' % w).encode(), self.clock)
            self.pending_during = getattr(self, 'pending_during', set()) | {w}
        elif k == 'uwrite':
            n, how = op[1], op[2]
            data = ('user %s v%d\n' % (n, m.srcver.get(n, 0) + 1)).encode() * (1 + m.srcver.get(n, 0) % 3)
            fp = self.path(n)
            if how == 'symlink':
                # the user's file is a symbolic link to a file of theirs
                ud = fp + '.userdata'
                write_file(ud, data, self.clock)
                if os.path.lexists(fp):
                    os.unlink(fp)
                os.symlink(os.path.basename(ud), fp)
                self.clock.tick(fp)
            elif how == 'samesize' and os.path.isfile(fp) and not os.path.islink(fp) and os.path.getsize(fp) > 1:
                # an edit that keeps the size of the file, made within the same wall-clock second as the state redo recorded
                # (only the sub-second part of the mtime differs)
                st = os.stat(fp)
                data = (b'U%d' % (m.srcver.get(n, 0) + 1)).ljust(st.st_size - 1, b'u')[:st.st_size - 1] + b'\n'
                write_file(fp, data)
                sec, sub = divmod(st.st_mtime_ns, 10 ** 9)
                # never an mtime this file has had before (a second edit must not land on the very instant redo recorded)
                seen = self.__dict__.setdefault('mtimes_seen', {}).setdefault(n, set())
                seen.add(st.st_mtime_ns)
                ns = sec * 10 ** 9 + (sub + 250000000) % 10 ** 9
                while ns in seen:
                    ns = sec * 10 ** 9 + (ns % 10 ** 9 + 1000000) % 10 ** 9
                seen.add(ns)
                os.utime(fp, ns=(ns, ns))
            elif how == 'replace' or not os.path.lexists(fp):
                tmp = fp + '.usertmp'
                write_file(tmp, data)
                os.rename(tmp, fp)
                self.clock.tick(fp)
            else:
                write_file(fp, data, self.clock)
            p.user[n] = data
            m.user_wrote(n)
        elif k == 'urm':
            n = op[1]
            if not os.path.lexists(self.path(n)):
                return False
            os.unlink(self.path(n))
            p.user.pop(n, None)
            m.removed(n)
        else:
            raise ValueError(op)
        return True

    # ------------------------------------------------------------------ commands
    def redo(self, argv, j=1, keep=False, shuffle=False, extra_env=None, cwd=None, timeout=90, stutter=None):
        env = base_env(dict(RV_TRACE=self.trace, RV_TOP=self.top))
        env.update(self.env_extra)
        if self.verif_log:
            env['REDO_VERIF_LOG'] = self.trace
        if keep:
            env['REDO_KEEP_GOING'] = '1'
        if shuffle:
            env['REDO_SHUFFLE'] = '1'
        if extra_env:
            env.update(extra_env)
        if os.environ.get('RV_REDO_DEBUG'):
            env['REDO_DEBUG'] = os.environ['RV_REDO_DEBUG']
        js = None
        pass_fds = ()
        if j > 1 and argv[0] != 'redo':
            js = HarnessJobserver(j)
            env.update(js.env())
            pass_fds = js.fds()
        try:
            r = run_cmd(argv, cwd or self.top, env=env, timeout=timeout, pass_fds=pass_fds, stutter=stutter)
            r_tokens = None
            if js:
                r_tokens = (js.initial, js.drain())
        finally:
            if js:
                js.close()
        self.last_tokens = r_tokens
        return r

    def build(self, targets, j=1, keep=False, forced=False, shuffle=False):
        p, m = self.p, self.m
        open(self.trace, 'w').close()
        if forced:
            argv = ['redo'] + (['-j%d' % j] if j > 1 else []) + (['-k'] if keep else []) + list(targets)
        else:
            argv = ['redo-ifchange'] + list(targets)
        users_before = {n: self.fingerprint(n) for n in p.user}
        r = self.redo(argv, j=j, keep=keep, shuffle=shuffle)
        self.last_result = r
        self.stats['commands'] += 1
        recs = parse_trace(read_file(self.trace).decode('utf-8', 'replace'))
        ex = executed(recs)
        self.stats['scripts'] += sum(ex.values())
        entry = dict(op='build', argv=argv, j=j, keep=keep, rc=r.rc, status=r.status, ran=sorted(ex))
        self.hist.append(entry)
        anoms = []
        # ---- crash / hang (belongs to C09, reported by every check as 'crash' class)
        if r.status == 'stuck':
            anoms.append(Anomaly(cls='stuck', key='stuck', what='invocation stuck: %s' % (r.witness,)))
        elif r.status == 'timeout':
            anoms.append(Anomaly(cls='timeout', key='timeout', what='watchdog without stuck witness: %s' % (r.witness,)))
        elif r.status == 'exit' and (r.rc in (-15, -2, -1) or re.search(r'(?m)^(redo\s+)?Terminated\s*$', r.err or '')):
            # SIGTERM/SIGINT/SIGHUP: redo never sends these and this harness did not either (its watchdog uses SIGKILL after
            # recording 'timeout'/'stuck'): something outside the experiment ended the command.  Not an observation of redo.
            anoms.append(Anomaly(cls='timeout', key='timeout', what='command (or a process of one of its scripts: sh reports "Terminated") ended by a signal sent from outside the experiment (rc=%s)' % r.rc))
            self.anoms.extend(anoms)
            entry['anoms'] = [a['cls'] for a in anoms]
            return entry, anoms, None
        pt = common.panic_text(r.err) or common.panic_text(r.out)
        if pt or r.rc == 101:
            loc = re.search(r'panicked at ([^:\s]+:\d+)', pt or '')
            anoms.append(Anomaly(cls='crash', key='panic:%s' % (loc.group(1) if loc else '?'), what=pt or 'exit 101'))
        if r.status != 'exit':
            self.anoms.extend(anoms)
            entry['anoms'] = [a['cls'] for a in anoms]
            return entry, anoms, None
        # ---- model
        m_before = m.copy()
        ok, ctx = m.command(list(targets), forced=forced, keep=keep, obs=set(ex), obsn=dict(ex), parallel=(j > 1), abort_mode=(j > 1 and not keep and r.rc != 0))
        def missing_runs(ctx):
            # (target, reason) of model executions that the observation does not have (multiset difference)
            out = []
            left = dict(ex)
            for n, why in sorted(ctx['why_list'], key=lambda x: x[1] == 'forced'):     # forced runs are matched last
                pass
            seen_cnt = {}
            for n in set(ctx['ran']):
                k = ctx['ran'].count(n) - ex.get(n, 0)
                if k > 0:
                    whys = [w for (x, w) in ctx['why_list'] if x == n and w != 'forced'] or [ctx['reasons'].get(n)]
                    out.extend((n, w) for w in whys[:k])
            return out
        late_hits = [(n, (w or '').split(':', 1)[1]) for n, w in missing_runs(ctx) if (w or '').startswith('dep-changed:')]
        late_hits = [h for h in late_hits if h in self.late]
        if late_hits:
            # redo does not notice a dependency that was force-rebuilt later in the same run in which the
            # dependent had already been checked: report it (keyed), adopt redo's view and carry on.
            self.m = m = m_before
            for dn, d in self.late:
                if d in m.R[dn].seen:
                    m.R[dn].seen[d] = m.ver(d)
            self.late = set()
            ok, ctx = m.command(list(targets), forced=forced, keep=keep, obs=set(ex), obsn=dict(ex), parallel=(j > 1), abort_mode=(j > 1 and not keep and r.rc != 0))
            anoms.append(Anomaly(cls='underbuild', key='underbuild:forced-rebuild-after-check-in-same-run-not-seen-by-dependents',
                                 cont=True, target=late_hits[0][0],
                                 what='%s was not rebuilt although %s was force-rebuilt (redo) in a run that had already checked one of them'
                                      % late_hits[0]))
        self.late |= ctx['late']
        for n in sorted(ctx.get('became_static', ())):
            # its rule is gone and redo has taken the file for a source: from now on it is the user's (C11: never regenerated)
            b = m.static.pop(n, None)
            if b is not None:
                p.user[n] = b
                self.stats['targets_turned_source_after_rule_removal'] = self.stats.get('targets_turned_source_after_rule_removal', 0) + 1
        for n in sorted(ctx.get('unsettled_overbuild', ())):
            if n in ex:
                anoms.append(Anomaly(cls='overbuild', key='overbuild:nested-checksummed-targets-not-settled-in-one-round', cont=True, target=n,
                                     what='%s was rebuilt although every checksummed target below it kept its checksum: with two nested levels of '
                                          'checksummed targets undecided, redo gives up after one out-of-band round and runs it' % n))
        for n in sorted(ctx.get('removed_overbuild', ())):
            if n in ex:
                anoms.append(Anomaly(cls='overbuild', key='overbuild:hand-removed-checksummed-target-definitely-dirty-on-later-looks', cont=True, target=n,
                                     what='%s was rebuilt although nothing it depends on was: a checksummed target below it had been removed by hand; only the '
                                          'first look at such a target treats it as "maybe changed", later looks in the same run see it as dirty' % n))
        for n in sorted(ctx.get('absorbed', ())):
            anoms.append(Anomaly(cls='underbuild', key='underbuild:forced-rebuild-after-check-in-same-run-not-seen-by-dependents', cont=True, target=n,
                                 what='%s was force-rebuilt (redo) after it had already been checked in the same run: redo does not mark it changed, '
                                      'its dependents are not rebuilt' % n))
        for n, why in ctx['reasons'].items():
            if (why or '').startswith('extra-edge:'):
                anoms.append(Anomaly(cls='overbuild', key='overbuild:extra-dependency-recorded-by-out-of-band-build', cont=True, target=n,
                                     what='%s re-ran only because redo had recorded %s (built out of band while its script ran) as its dependency; '
                                          'nothing it declares changed' % (n, why.split(':', 1)[1])))
        entry['expect'] = sorted(set(ctx['ran']))
        entry['expect_ok'] = ok
        self.stats['maybe'] += len(ctx['maybe'])
        self.stats['ambiguous'] += len(ctx['ambiguous'])
        for n, why in ctx['reasons'].items():
            self.reasons_seen.add(reason_class(why) + '/' + kinds_of(p, n).split('+')[0])
        if not ok:
            self.stats['failing_commands'] += 1
        # each target at most once per run
        for n, c in ex.items():
            if c > max(1, ctx['ran'].count(n)) and not m.tainted(n):
                # (a target built from a failure it tolerates - directly or through a chain of tolerant consumers - is dirty again
                #  whenever it is looked at in the same run (C05: never recorded as up to date), so it runs once per look)
                anoms.append(Anomaly(cls='multi', key='multi:%s' % kinds_of(p, n), target=n,
                                     what='%s executed %d times in one run' % (n, c)))
        for n, pids, pid2 in overlaps(recs):
            anoms.append(Anomaly(cls='overlap', key='overlap', target=n, what='%s: overlapping executions' % n))
        exp = set(ctx['ran'])
        extra_obs = set(ex) - exp
        if extra_obs and j > 1 and not keep and (not ok or r.rc != 0):
            # A failing parallel command: redo judged the requested targets side by side, before the failure was known, and had
            # already handed the checksummed targets they need to out-of-band builds.  Such a script is legitimate if the command
            # would have run it anyway had the failure not stopped it: compare with the same command under --keep-going.
            mk = m_before.copy()
            _okk, ctxk = mk.command(list(targets), forced=forced, keep=True)
            may = set(ctxk['ran'])
            self.stats['extra_runs_in_failing_parallel_explained_by_keep_going_set'] = \
                self.stats.get('extra_runs_in_failing_parallel_explained_by_keep_going_set', 0) + len(extra_obs & may)
            extra_obs -= may
        for n in sorted(extra_obs):
            anoms.append(Anomaly(cls='overbuild', key='overbuild:%s:%s' % (kinds_of(p, n), 'stamp-below' if stamp_below(p, n) else 'no-stamp-below'),
                                 target=n, what='%s ran although the model finds no reason' % n))
        # In a failing parallel command without --keep-going, what was started before the failure became known
        # depends on the schedule (C05: "no new target is started after the first failure is known"), so a script
        # the model expected but that did not run is not an under-build there.
        sched_dependent = (j > 1 and not keep and (not ok or r.rc != 0))
        if sched_dependent:
            self.stats['underbuild_not_judged_failing_parallel'] = self.stats.get('underbuild_not_judged_failing_parallel', 0) + len(missing_runs(ctx))
        def behind_optional_run(w):
            # the model's reason leads (through its chain of reasons) to a script that was free to run or not ('maybe': the model
            # took it over from the observation).  In a failing command the place of such an optional run relative to the failure
            # is not modelled: the dependent the model then expects may rightly never have been started (soak 14, C05: t5 rebuilt
            # inside the out-of-band build of t6, which then failed; t7 above both never started).
            seen_ = set()
            while w and ':' in w:
                x = w.split(':', 1)[1]
                if x in ctx['maybe']:
                    return True
                if x in seen_:
                    return False
                seen_.add(x)
                w = ctx['reasons'].get(x)
            return False
        opt_dependent = [(n, w) for n, w in missing_runs(ctx) if (not ok or r.rc != 0) and not keep and ctx['maybe'] and behind_optional_run(w)]
        if opt_dependent:
            self.stats['underbuild_not_judged_failing_behind_optional_run'] = self.stats.get('underbuild_not_judged_failing_behind_optional_run', 0) + len(opt_dependent)
        for n, w in sorted([x for x in missing_runs(ctx) if x not in opt_dependent] if not sched_dependent else [], key=str):
            anoms.append(Anomaly(cls='underbuild', key='underbuild:%s:%s' % (kinds_of(p, n), reason_class(w)),
                                 target=n, what='%s ran %d time(s), the model expects %d; model reason: %s' % (n, ex.get(n, 0), ctx['ran'].count(n), w)))
        if (r.rc == 0) != ok:
            anoms.append(Anomaly(cls='exit', key='exit:%s:rc=%s' % ('expected-ok' if ok else 'expected-failure', r.rc),
                                 what='exit status %s but model says ok=%s; stderr tail: %s' % (r.rc, ok, r.err[-300:].replace('\n', ' | '))))
        # ---- contents after success (whole closure) and, after a failing command, of every target the
        # model knows to have been brought up to date by it
        stale = []
        self.last_recs = recs
        clo = set()
        if r.rc == 0:
            for t in targets:
                p.closure(t, clo)
        else:
            clo = set(n for n, okd in ctx['done'].items() if okd and m.is_target(n) and p.buildable(n, {}))
        if clo:
            memo = {}
            for n in sorted(clo):
                want = p.expected(n, memo)
                got = read_file(self.path(n))
                if want != got:
                    stale.append(n)
                    anoms.append(Anomaly(cls='stale', key='stale:%s:%s' % (kinds_of(p, n), 'stamp-below' if stamp_below(p, n) else 'no-stamp-below'), target=n,
                                         what='%s has %r..., a from-scratch build gives %r...' % (n, (got or b'')[:80], (want or b'')[:80])))
        # ---- user files untouched (C11)
        for n, fp in users_before.items():
            if n in p.user and self.fingerprint(n) != fp:
                anoms.append(Anomaly(cls='user-file-touched', key='user-file-touched:%s' % kinds_of(p, n), target=n,
                                     what='user-owned %s changed during %s' % (n, argv)))
        # ---- watched paths that appeared while their watcher's script was running: from now on they exist
        for w in sorted(getattr(self, 'pending_during', ())):
            if not os.path.lexists(self.path(w) + '.during') and os.path.lexists(self.path(w)):
                p.watch[w] = 0
                m.touch_src(w)
                self.pending_during.discard(w)
                self.stats['watched_paths_created_during_the_watching_script'] = self.stats.get('watched_paths_created_during_the_watching_script', 0) + 1
            else:
                # the watcher's script did not get that far in the command that was meant to take it (it failed earlier, or was
                # not started): the offer is withdrawn, so that no later command with several requesters meets it
                try:
                    os.unlink(self.path(w) + '.during')
                except OSError:
                    pass
                self.pending_during.discard(w)
        entry['anoms'] = [a['key'] for a in anoms]
        if anoms:
            entry['trace'] = [' '.join(f) for f in recs][-120:]
        self.anoms.extend(anoms)
        self.last_build = ('build', list(targets), dict(j=j, keep=keep, forced=forced))
        return entry, anoms, ctx

    def fingerprint(self, n):
        try:
            st = os.lstat(self.path(n))
            return (st.st_ino, st.st_size, st.st_mtime_ns, read_file(self.path(n)))
        except OSError:
            return None

    def query(self, name, cwd=None):
        r = self.redo([name], cwd=cwd, timeout=60)
        return r

    def db_rows(self):
        """Read-only copy of the state database."""
        src = os.path.join(self.top, '.redo', 'db.sqlite3')
        tmpd = common.new_dir('db')
        try:
            for suf in ('', '-wal', '-shm'):
                if os.path.exists(src + suf):
                    shutil.copy(src + suf, os.path.join(tmpd, 'db.sqlite3' + suf))
            con = sqlite3.connect(os.path.join(tmpd, 'db.sqlite3'))
            files = con.execute('select rowid,name,is_generated,is_override,checked_runid,changed_runid,failed_runid,stamp,csum from Files').fetchall()
            deps = con.execute('select target,source,mode,delete_me from Deps').fetchall()
            integ = con.execute('pragma integrity_check').fetchall()
            con.close()
            return files, deps, integ
        finally:
            common.rmtree(tmpd)


def run_history(seed, prof, tag='h', verif_log=False, stop_on=('stale', 'overbuild', 'underbuild', 'exit', 'crash', 'stuck', 'timeout', 'multi', 'overlap', 'user-file-touched'),
                hook=None, prog=None, ops=None):
    """Generate and run one history.  Returns dict(runner stats, anomalies, history, program spec).
    `hook(runner, step, op, entry, anoms, ctx)` lets a check add its own observations after each op."""
    rnd = random.Random(seed)
    p = prog or gen.gen_program(rnd, prof)
    hr = HistRunner(p, tag=tag, verif_log=verif_log)
    try:
        nsteps = len(ops) if ops is not None else gen.gen_history(rnd, p, prof)
        extra = []
        applied = []
        i = 0
        queue = list(ops) if ops is not None else []
        while i < nsteps or (ops is None and queue):
            if not queue:
                if ops is not None:
                    break
                op = None
                for _ in range(20):
                    op = gen.gen_op(rnd, p, prof, hr.last_build)
                    if op:
                        break
                if op is None:
                    break
                queue.extend(op if isinstance(op, list) else [op])
            op = queue.pop(0)
            i += 1
            if os.environ.get('RV_STOP_AT') and len(hr.hist) >= int(os.environ['RV_STOP_AT']):
                print('STOPPED before op %d: %r' % (i, op))
                break
            applied.append(op)
            if op[0] == 'build':
                entry, anoms, ctx = hr.build(op[1], **op[2])
                if hook:
                    extra.extend(hook(hr, i, op, entry, anoms, ctx) or [])
                if any(a['cls'] in stop_on and not a.get('cont') for a in anoms):
                    break
            else:
                if hr.apply_edit(op):
                    hr.hist.append(dict(op=op[0], args=list(op[1:])))
                    if hook:
                        extra.extend(hook(hr, i, op, None, [], None) or [])
        return dict(seed=seed, ops=applied, spec=p.spec(), shape=p.shape(), hist=hr.hist, anoms=hr.anoms + extra, stats=hr.stats,
                    reasons=sorted(hr.reasons_seen), last_err=(hr.last_result.err[-1200:] if hr.last_result else ''))
    finally:
        hr.close()
