"""Hand-shaped scenario projects and concurrent command launching."""
import os
import re
import threading
import time

from . import common
from .common import write_file, base_env, run_cmd
from .jobserver import HarnessJobserver

TRACE_HDR = 'exec 9>>"$RV_TRACE"\n'


def leaf_do(sleep_expr=''):
    return (TRACE_HDR + 'echo "S $1 $$ $PPID" >&9\necho "W+ $1 $$" >&9\n%s\necho "W- $1 $$" >&9\n'
            'echo "leaf $1" > "$3"\necho "E $1 $$ 0" >&9\n' % sleep_expr)


def node_do(deps, sleep_expr='', split=False):
    dl = ' '.join(deps)
    if split:
        body = ''.join('redo-ifchange %s\n' % d for d in deps)
    else:
        body = 'redo-ifchange %s\n' % dl if deps else ''
    return (TRACE_HDR + 'echo "S $1 $$ $PPID" >&9\n' + body + 'echo "W+ $1 $$" >&9\n%s\necho "W- $1 $$" >&9\n' % sleep_expr +
            'echo "node $1" > "$3"\nfor d in %s; do [ -e "$d" ] && cat "$d" >> "$3"; done\ntrue\necho "E $1 $$ 0" >&9\n' % (dl or '""'))


class Project:
    def __init__(self, files, tag='sc'):
        self.top = common.new_dir(tag)
        self.trace = os.path.join(self.top, '.rv-trace')
        for p, c in files.items():
            write_file(os.path.join(self.top, p), c)
        open(self.trace, 'w').close()

    def env(self, extra=None, verif_log=True):
        e = base_env(dict(RV_TRACE=self.trace, RV_TOP=self.top))
        if verif_log:
            e['REDO_VERIF_LOG'] = self.trace
        if extra:
            e.update(extra)
        return e

    def run(self, argv, extra=None, timeout=60, slots=None, cwd=None, verif_log=True, stuck_after=5.0, stutter=None):
        """Run one command; with `slots` the harness plays the parent jobserver."""
        env = self.env(extra, verif_log)
        js = None
        fds = ()
        if slots:
            js = HarnessJobserver(slots)
            env.update(js.env())
            fds = js.fds()
        try:
            r = run_cmd(argv, cwd or self.top, env=env, timeout=timeout, pass_fds=fds, stuck_after=stuck_after, stutter=stutter)
            r_tokens = (js.initial, js.drain()) if js else None
        finally:
            if js:
                js.close()
        return r, r_tokens

    def run_many(self, cmds, timeout=60, barrier=False):
        """cmds: list of dict(argv=, delay=, extra=).  Started concurrently (after their delay).
        With `barrier` every command first blocks opening a FIFO; the harness opens it for writing once all of
        them wait there, which releases them in the same instant (each then execs its command)."""
        res = [None] * len(cmds)
        fifo = None
        if barrier:
            fifo = os.path.join(os.path.dirname(self.top), os.path.basename(self.top) + '.barrier')
            if not os.path.exists(fifo):
                os.mkfifo(fifo)

        def go(i, c):
            if c.get('delay') and not barrier:
                time.sleep(c['delay'])
            argv = c['argv']
            if barrier == 'spin':
                # busy-waiting starters have no wake-up latency: the tightest simultaneity a user-space harness can get
                argv = ['sh', '-c', 'while [ ! -e "$0.go" ]; do :; done; exec "$@"', fifo] + list(argv)
            elif barrier:
                argv = ['sh', '-c', 'read _ < "$0"; exec "$@"', fifo] + list(argv)
            res[i] = run_cmd(argv, c.get('cwd') or self.top, env=self.env(c.get('extra')), timeout=timeout)
        ths = [threading.Thread(target=go, args=(i, c)) for i, c in enumerate(cmds)]
        for t in ths:
            t.start()
        if barrier:
            # wait until every starter sits in open(fifo) (blocked shells consume no CPU; 150 ms is ample), then release
            time.sleep(0.15)
            if barrier == 'spin':
                open(fifo + '.go', 'w').close()
            else:
                fd = os.open(fifo, os.O_WRONLY)
                os.close(fd)
        for t in ths:
            t.join()
        if fifo:
            for f in (fifo, fifo + '.go'):
                try:
                    os.unlink(f)
                except OSError:
                    pass
        return res

    def trace_text(self):
        return (common.read_file(self.trace) or b'').decode('utf-8', 'replace')

    def logs_text(self):
        out = []
        d = os.path.join(self.top, '.redo')
        try:
            for n in os.listdir(d):
                if n.startswith('log.'):
                    out.append((common.read_file(os.path.join(d, n)) or b'').decode('utf-8', 'replace'))
        except OSError:
            pass
        return '\n'.join(out)

    def close(self):
        if os.environ.get('RV_KEEP'):
            print('KEPT', self.top)
            return
        common.rmtree(self.top)


ERR_PATTERNS = [
    ('edeadlk', re.compile(r'EDEADLK|Resource deadlock')),
    ('jobserver-deadlock', re.compile(r'JobServer deadlock')),
    ('token-eof', re.compile(r'unexpected EOF on token read')),
    ('token-count', re.compile(r'on exit: expected \d+ tokens')),
    ('db-locked', re.compile(r'database is locked|SQLITE_BUSY|database table is locked')),
    ('db-schema', re.compile(r'no such table|schema version check failed')),
    ('db-other', re.compile(r'failed to insert|could not connect|SqliteFailure')),
]


def classify_error(text):
    for name, rx in ERR_PATTERNS:
        if rx.search(text or ''):
            return name
    return None


def crash_anoms(r, logs='', where=''):
    """Anomalies of the C09 kind in one finished command."""
    out = []
    text = (r.err or '') + '\n' + (r.out or '') + '\n' + logs
    if r.status == 'stuck':
        out.append(dict(cls='stuck', key='stuck:%s' % where, what='stuck: %s' % (r.witness,)))
    elif r.status == 'timeout':
        out.append(dict(cls='timeout', key='timeout', what='watchdog without stuck witness: %s' % (r.witness,)))
    pt = common.panic_text(text)
    if pt or r.rc == 101 or (r.rc is not None and r.rc < 0 and -r.rc in (6, 11)):
        loc = re.search(r'panicked at ([^:\s]+:\d+)', pt or '')
        out.append(dict(cls='crash', key='panic:%s' % (loc.group(1) if loc else 'signal-or-101'), what=(pt or 'rc=%s' % r.rc)))
    return out
