"""Random program (graph of .do scripts) and history generators."""
import posixpath

from .prog import Program, default_candidates

DEFAULT_PROFILE = dict(
    nsrc=(2, 4), ntgt=(3, 9), maxdeps=3,
    p_stamp=0.25, p_always=0.12, p_head=0.3, p_phony=0.05, p_dyn=0.25, p_flag=0.25, p_watch=0.15,
    p_opt=0.1, p_split=0.15, p_default=0.35, p_subdir=0.2, p_twodot=0.3,
    steps=(6, 18),
    ops=dict(build=8, edit_r=3, edit_i=2, touch=1, rm=2, doedit=1, doadd=1, dorm=1, sel=2, flag=2, watch=2,
             force=1, repeat=2, uwrite=0, urm=0, dorm_last=0.5, m_watchduring=0, chmod=0, edit_keep=0.7, m_failedit=0),
    jmax=1, p_keep=0.0, p_multi=0.25,
)


def profile(**over):
    p = dict(DEFAULT_PROFILE)
    p['ops'] = dict(DEFAULT_PROFILE['ops'])
    for k, v in over.items():
        if k == 'ops':
            p['ops'].update(v)
        else:
            p[k] = v
    return p


def gen_program(rnd, prof):
    p = Program()
    for i in range(rnd.randint(*prof['nsrc'])):
        p.sources['s%d' % i] = dict(r=0, i=0)
    names = []
    nt = rnd.randint(*prof['ntgt'])
    for i in range(nt):
        d = 'sub/' if rnd.random() < prof['p_subdir'] else ''
        if rnd.random() < prof['p_default']:
            ext = '.x.d' if rnd.random() < prof['p_twodot'] else '.d'
        else:
            ext = ''
        n = '%st%d%s' % (d, i, ext)
        pool = list(p.sources) + names
        k = rnd.randint(1, min(prof['maxdeps'], len(pool)))
        # bias towards depending on recent targets so that chains and diamonds appear
        tg = [x for x in names[-4:]]
        deps = []
        for _ in range(k):
            c = rnd.choice(tg) if tg and rnd.random() < 0.6 else rnd.choice(pool)
            if c not in deps:
                deps.append(c)
        t = dict(deps=deps)
        if rnd.random() < prof['p_stamp']:
            t['stamp'] = True
        if rnd.random() < prof['p_always']:
            t['always'] = True
        if rnd.random() < prof['p_head']:
            t['head'] = True
        if rnd.random() < prof['p_phony'] and not t.get('stamp'):
            t['phony'] = True
        if rnd.random() < prof['p_dyn'] and len(deps) >= 2:
            t['dyn'] = True
            t['sel'] = list(deps)
        if rnd.random() < prof['p_flag']:
            t['flag'] = 0
        if rnd.random() < prof['p_split'] and len(deps) >= 2:
            t['split'] = True
        if not t.get('phony') and rnd.random() < prof.get('p_linkout', 0.12):
            # the output is a symbolic link to a data file the script leaves next to it (lib.so -> lib.so.1.2)
            t['linkout'] = True
        if any(x.startswith('sub/') for x in deps) and rnd.random() < prof.get('p_alias', 0.35):
            # asks for its dependencies in sub/ through a symbolic link to that directory (lnk -> sub): same targets, other spelling
            t['alias'] = True
        if rnd.random() < prof['p_watch']:
            w = 'w%d' % len(p.watch)
            p.watch[w] = None if rnd.random() < 0.7 else 0
            if rnd.random() < prof.get('p_watch_link', 0.0):
                p.watch_link.add(w)
            t['watch'] = w
        cand = [x for x in names if x not in deps and p.targets[x].get('flag') is not None]
        if cand and rnd.random() < prof['p_opt']:
            t['opt'] = rnd.choice(cand)
        p.targets[n] = t
        names.append(n)
        # scripts: a target without extension has its own .do; a default-built one relies on a default rule
        if ext == '':
            p.dofiles[n + '.do'] = 0
        else:
            cands = default_candidates(n)[1:]
            usable = [c for c in cands if not c.endswith('default.do')]
            pick = rnd.choice(usable)
            p.dofiles.setdefault(pick, 0)
            # always keep the outermost rule so that removing a nearer one falls back
            p.dofiles.setdefault(usable[-1], 0)
            if rnd.random() < 0.15:
                p.dofiles[n + '.do'] = 0
    p.order = names
    # failing scripts that leave a mess: before it exits non-zero the script appends to the existing target file ($1) directly
    import random as _random
    r2 = _random.Random(rnd.random())
    for n in names:
        if not p.targets[n].get('phony') and r2.random() < prof.get('p_scribble', 0.4):
            p.targets[n]['scribble'] = True
        if p.targets[n].get('stamp') and r2.random() < prof.get('p_stamppipe', 0.5):
            # redo-stamp reads its data from a pipe that delivers it in two pieces (the first line, a pause, the rest)
            p.targets[n]['stamppipe'] = True
    return p


def removable_do(p, path):
    """A candidate may be removed only if every target it currently serves keeps another rule."""
    for n in p.targets:
        if p.chosen_do(n) == path:
            others = [c for c in default_candidates(n) if c in p.dofiles and c != path]
            if not others:
                return False
    return True


def addable_dos(p):
    out = []
    for n in p.targets:
        for c in default_candidates(n):
            if c.endswith('default.do') and posixpath.basename(c) == 'default.do':
                continue
            if c not in p.dofiles and c not in out:
                out.append(c)
    return out


def gen_op(rnd, p, prof, last_build=None):
    """One history operation (not yet applied).  Returns a tuple or None if the drawn op is not applicable."""
    ops = prof['ops']
    kinds = [k for k, w in ops.items() if w > 0]
    op = rnd.choices(kinds, [ops[k] for k in kinds])[0]
    tnames = p.order
    if op in ('build', 'force'):
        k = 1 if rnd.random() > prof['p_multi'] else rnd.randint(2, min(3, len(tnames)))
        pool = tnames
        if prof.get('top_bias') and rnd.random() < prof['top_bias']:
            used = set(d for t in p.targets.values() for d in t['deps'])
            pool = [n for n in tnames if n not in used] or tnames
        ts = rnd.sample(pool, min(k, len(pool)))
        j = 1 if prof['jmax'] <= 1 else rnd.choice([1] + list(range(2, prof['jmax'] + 1)))
        keep = rnd.random() < prof['p_keep']
        if op == 'force' and prof.get('force_single'):
            ts = ts[:1]
        if op == 'force' and len(ts) > 1:
            j = 1      # forced rebuilds of overlapping closures in parallel have no defined order
        return ('build', ts, dict(j=j, keep=keep, forced=(op == 'force')))
    if op == 'repeat':
        if last_build is None:
            return None
        return ('build', list(last_build[1]), dict(last_build[2], forced=False))
    if op in ('edit_r', 'edit_i', 'touch', 'edit_keep'):
        return (op, rnd.choice(sorted(p.sources)))
    if op == 'rm':
        n = rnd.choice(tnames)
        if (prof['jmax'] > 1 or prof.get('no_rm_stamp')) and p.targets[n].get('stamp'):
            # redo treats a hand-removed checksummed target as "maybe changed" on its first evaluation and
            # as "changed" on later ones; under parallelism which one a dependent gets is a race, so the
            # combination is left to the serial profiles
            return None
        return ('rm', n)
    if op == 'doedit':
        return ('doedit', rnd.choice(sorted(p.dofiles))) if p.dofiles else None
    if op == 'doadd':
        c = addable_dos(p)
        return ('doadd', rnd.choice(c)) if c else None
    if op == 'dorm':
        c = [d for d in sorted(p.dofiles) if removable_do(p, d)]
        return ('dorm', rnd.choice(c)) if c else None
    if op == 'dorm_last':
        # remove a rule that is the only one for at least one target (the file it made stays and becomes a source; a target
        # without file fails with "no rule")
        c = [d for d in sorted(p.dofiles) if not removable_do(p, d)]
        return ('dorm', rnd.choice(c)) if c else None
    if op == 'sel':
        c = [n for n in tnames if p.targets[n].get('dyn')]
        if not c:
            return None
        n = rnd.choice(c)
        deps = p.targets[n]['deps']
        return ('sel', n, rnd.sample(deps, rnd.randint(1, len(deps))))
    if op == 'flag':
        c = [n for n in tnames if p.targets[n].get('flag') is not None]
        if not c:
            return None
        n = rnd.choice(c)
        return ('flag', n, 1 - p.targets[n]['flag'])
    if op == 'hflag':
        c = [n for n in tnames if n not in _opt_closure(p)]
        if not c:
            return None
        n = rnd.choice(c)
        return ('hflag', n, 0 if p.targets[n].get('hfail') else 1)
    if op == 'm_hfail':
        # a target that fails for an undeclared reason when it is force-rebuilt, although it was clean: the failure is remembered,
        # dependents requested later in the same run (also through intermediates) fail, the next run retries, the repair propagates
        c = [n for n in tnames if not p.targets[n].get('hfail') and p.dependents(n) and n not in _opt_closure(p)]
        if not c:
            return None
        n = rnd.choice(c)
        ups = sorted(p.dependents(n))
        top = rnd.choice(ups)
        chk = rnd.choice(ups)
        keep = rnd.random() < 0.6
        bt = ('build', [top], dict(j=1, keep=False, forced=False))
        line = [chk, n, top] if chk != top else [n, top]
        variants = [
            [bt, ('hflag', n, 1), ('build', line, dict(j=1, keep=keep, forced=True)), bt, ('hflag', n, 0), bt, bt],
            [bt, ('hflag', n, 1), ('build', [n], dict(j=1, keep=False, forced=True)), bt, bt, ('hflag', n, 0), bt, bt],
            [bt, ('hflag', n, 1), ('build', [n, top], dict(j=1, keep=True, forced=True)), ('hflag', n, 0), ('build', [chk], dict(j=1, keep=False, forced=False)), bt],
        ]
        return rnd.choice(variants)
    if op == 'watch':
        if not p.watch:
            return None
        w = rnd.choice(sorted(p.watch))
        if p.watch[w] is None:
            return ('watch', w, 'create')
        return ('watch', w, rnd.choice(['delete', 'edit']))
    if op == 'm_dropdep':
        # narrow a selector, build, edit exactly a dropped dependency, build again (must run nothing)
        c = [n for n in tnames if p.targets[n].get('dyn') and len(p.targets[n]['deps']) >= 2]
        if not c:
            return None
        n = rnd.choice(c)
        deps = p.targets[n]['deps']
        keep = rnd.sample(deps, rnd.randint(1, len(deps) - 1))
        dropped = [d for d in deps if d not in keep]
        d = rnd.choice(dropped)
        b = ('build', [n], dict(j=1, keep=False, forced=False))
        out = [('sel', n, keep), b]
        if d in p.sources:
            out.append((rnd.choice(['edit_r', 'edit_i', 'touch']), d))
        else:
            out.append(('rm', d))
        out += [b, ('sel', n, list(deps)), b]
        return out
    if op == 'm_dropforgot':
        # like m_dropdep, but the narrowed target is rebuilt while redo's record of it says "not a target (any more)": its file
        # was removed and a consumer's walk reached it first, a build attempt failed with the output missing, or it had been an
        # override that the user deleted again.  The edges of the earlier incarnation must still be replaced by the new ones.
        c = [n for n in tnames if p.targets[n].get('dyn') and len(p.targets[n]['deps']) >= 2 and p.dependents(n)
             and not p.targets[n].get('phony') and not p.targets[n].get('stamp')]
        if not c:
            return None
        n = rnd.choice(c)
        top = rnd.choice(sorted(p.dependents(n)))
        deps = p.targets[n]['deps']
        keep = rnd.sample(deps, rnd.randint(1, len(deps) - 1))
        d = rnd.choice([x for x in deps if x not in keep])
        if d not in p.sources and p.targets[d].get('stamp'):
            return None
        bt = ('build', [top], dict(j=1, keep=False, forced=False))
        routes = ['rm', 'override'] + (['fail'] if p.targets[n].get('flag') == 0 else [])
        route = rnd.choice(routes)
        if route == 'rm':
            out = [bt, ('rm', n), ('sel', n, keep), bt]
        elif route == 'override':
            out = [bt, ('uwrite', n, 'inplace'), bt, ('urm', n), ('sel', n, keep), bt]
        else:
            out = [bt, ('rm', n), ('flag', n, 1), bt, ('flag', n, 0), ('sel', n, keep), bt]
        out.append((rnd.choice(['edit_r', 'edit_i', 'touch']), d) if d in p.sources else ('rm', d))
        out += [bt, bt, ('sel', n, list(deps)), bt]
        return out
    if op == 'm_doswap':
        # add a higher-priority rule, build, remove it again, build
        c = addable_dos(p)
        if not c:
            return None
        path = rnd.choice(c)
        served = [n for n in tnames if path in default_candidates(n) and
                  default_candidates(n).index(path) < (default_candidates(n).index(p.chosen_do(n)) if p.chosen_do(n) else 99)]
        if not served:
            return None
        b = ('build', [rnd.choice(served)], dict(j=1, keep=False, forced=False))
        return [b, ('doadd', path), b, b, ('dorm', path), b]
    if op == 'm_stamp':
        # edit below a checksummed target, then ask for a consumer directly
        st = [n for n in tnames if p.targets[n].get('stamp')]
        if not st:
            return None
        s_ = rnd.choice(st)
        ups = sorted(p.dependents(s_))
        srcs = [d for d in _src_closure(p, s_)]
        if not ups or not srcs:
            return None
        top = rnd.choice(ups)
        b = ('build', [top], dict(j=1, keep=False, forced=False))
        return [b, (rnd.choice(['edit_r', 'edit_i', 'edit_i']), rnd.choice(srcs)), b, b]
    if op == 'm_failfix':
        c = [n for n in tnames if p.targets[n].get('flag') is not None]
        if not c:
            return None
        n = rnd.choice(c)
        ups = sorted(p.dependents(n)) or [n]
        top = rnd.choice(ups + [n])
        j = 1 if prof['jmax'] <= 1 else rnd.choice([1, prof['jmax']])
        b = ('build', [top], dict(j=j, keep=rnd.random() < prof['p_keep'], forced=False))
        return [b, ('flag', n, 1), b, b, ('flag', n, 0), b, b]
    if op == 'm_failedit':
        # a rebuild fails and leaves the old file; then the user edits the file by hand; then the cause of the failure goes away
        c = [n for n in tnames if not p.targets[n].get('phony') and not p.targets[n].get('hfail') and n not in _opt_closure(p) and n not in p.user]
        if not c:
            return None
        n = rnd.choice(c)
        how = rnd.choice(['inplace', 'replace', 'samesize'])
        return [('build', [n], dict(j=1, keep=False, forced=False)), ('hflag', n, 1), ('build', [n], dict(j=1, keep=False, forced=True)), ('uwrite', n, how),
                ('hflag', n, 0), ('build', [n], dict(j=1, keep=False, forced=False)), ('build', [n], dict(j=1, keep=False, forced=True))]
    if op == 'm_watchduring':
        # the watched path appears while the watcher's script runs (after its redo-ifcreate): the next redo-ifchange must rebuild it
        c = [n for n in tnames if p.targets[n].get('watch') and p.watch.get(p.targets[n]['watch']) is None and p.targets[n]['watch'] not in p.watch_link
             and p.targets[n].get('flag') is None and not p.targets[n].get('opt')]
        if not c:
            return None
        n = rnd.choice(c)
        b = ('build', [n], dict(j=1, keep=False, forced=False))
        return [('watch_during', p.targets[n]['watch']), ('build', [n], dict(j=1, keep=False, forced=True)), b, b]
    if op == 'uwrite':
        return ('uwrite', rnd.choice(tnames), rnd.choice(['inplace', 'replace', 'symlink', 'samesize'] if prof.get('user_symlinks') else ['inplace', 'replace', 'samesize']))
    if op == 'edit_back':
        c = [n for n in sorted(p.sources) if p.sources[n]['r'] > 0]
        return ('edit_back', rnd.choice(c)) if c else None
    if op == 'm_stampflip':
        # a target that records a checksum in some builds only: stamped on content X1, rebuilt unstamped on X2, stamped again on X1
        st = [n for n in tnames if p.targets[n].get('stamp') and p.dependents(n) and any(d in p.sources for d in p.curdeps(n))]
        if not st:
            return None
        s_ = rnd.choice(st)
        src = rnd.choice([d for d in p.curdeps(s_) if d in p.sources])
        top = rnd.choice(sorted(p.dependents(s_)))
        b = ('build', [top], dict(j=1, keep=False, forced=False))
        return [b, ('edit_r', src), ('stampflip', s_), b, ('edit_back', src), ('stampflip', s_), b, b]
    if op == 'chmod':
        c = [n for n in tnames if not p.targets[n].get('phony') and not p.targets[n].get('linkout')]
        return ('chmod', rnd.choice(c)) if c else None
    if op == 'urm':
        return ('urm', rnd.choice(tnames))
    return None


def _opt_closure(p):
    """Targets whose availability a tolerant consumer (`redo-ifchange x || true`) writes into its output: an undeclared failure
    there would make content depend on the history, which the content oracle cannot follow."""
    acc = set()
    for t in p.targets.values():
        o = t.get('opt')
        if o and o in p.targets:
            p.closure(o, acc)
            acc.add(o)
    return acc


def _src_closure(p, n, acc=None):
    acc = set() if acc is None else acc
    for d in p.curdeps(n):
        if d in p.sources:
            acc.add(d)
        elif d in p.targets:
            _src_closure(p, d, acc)
    return sorted(acc)


def gen_history(rnd, p, prof):
    """Histories are generated lazily by the runner (ops depend on the evolving program); this
    returns the number of steps."""
    return rnd.randint(*prof['steps'])
