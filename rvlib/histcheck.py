"""Common driver for the history-based checks (C01, C02, C03, C05, C11, C14, C17)."""
import time

from . import common, gen, histrun
from .framework import Collector


def op_shape(hist):
    out = []
    for h in hist:
        if h['op'] == 'build':
            out.append('%s%s%s:%d' % ('R' if h['argv'][0] == 'redo' else 'I', 'k' if h.get('keep') else '',
                                      'j' if h.get('j', 1) > 1 else '', len(h.get('ran', []))))
        else:
            out.append(h['op'])
    return out


class HistCase:
    """Picklable case function: runs one history and classifies its anomalies for one property."""

    def __init__(self, prop, prof, classes, nontrivial, hook=None, keyfilter=None):
        self.prop, self.prof, self.classes, self.nontrivial, self.hook, self.keyfilter = prop, prof, classes, nontrivial, hook, keyfilter

    def __call__(self, seed, ops=None, hook=None):
        prog = None
        fixed = None
        if isinstance(seed, (tuple, list)) and seed[0] == 'fixed':
            from . import fixedhist
            fixed = seed[1]
            prog, ops = fixedhist.SCENARIOS[fixed]()
            seed = 0
        prof = self.prof(seed) if callable(self.prof) else self.prof
        r = histrun.run_history(seed, prof, tag=self.prop.lower(), hook=hook or self.hook, ops=ops, verif_log=bool(self.hook), prog=prog)
        if fixed:
            r['seed'] = ['fixed', fixed]
            seed = ['fixed', fixed]
        mine = [a for a in r['anoms'] if a['cls'] in self.classes and (self.keyfilter is None or self.keyfilter(a))]
        other = [a for a in r['anoms'] if a not in mine]
        shape = common.shash([r['shape'], op_shape(r['hist'])])
        res = dict(verdict='held', nontrivial=bool(self.nontrivial(r)), shape=shape,
                   sample=dict(seed=seed, targets={n: {k: v for k, v in t.items() if v} for n, t in r['spec']['targets'].items()},
                               history=[(h['op'], h.get('argv') or h.get('args'), h.get('ran')) for h in r['hist']][:12]),
                   obs=dict(r['stats'], anomalies_of_other_properties=len(other)),
                   sets=dict(rebuild_reasons=r['reasons'], other_anomaly_classes=[a['cls'] for a in other]))
        if any(a['cls'] == 'timeout' for a in r['anoms']):
            res['verdict'] = 'inconclusive'
            res['why'] = [a['what'] for a in r['anoms'] if a['cls'] == 'timeout'][0][:700]
        if mine:
            res['verdict'] = 'violated'
            res['violations'] = [dict(key=a['key'], what=a['what']) for a in mine]
            res['replay'] = dict(kind='history', seed=seed, ops=r['ops'], spec=r['spec'], hist=r['hist'], last_err=r['last_err'])
        return res


def run(prop, tier, case, seeds, level, rule, assumptions, budget_s, floor=8, extra=None, layers=()):
    """layers: further (case function, items, coverage dict, budget in seconds) run after the histories into the same collector"""
    col = Collector(prop, tier, level, rule, assumptions, floor=floor)
    deadline = time.time() + budget_s
    from . import fixedhist
    seeds = [('fixed', n) for n in sorted(fixedhist.SCENARIOS)] + list(seeds)
    for r in common.pmap(case, seeds, deadline=deadline):
        col.add(r)
    extra = dict(extra or {})
    for fn, its, cov, budget in layers:
        d2 = time.time() + budget
        for r in common.pmap(fn, its, deadline=d2):
            col.add(r)
        extra.update(cov or {})
    rc = col.finish(extra_coverage=extra)
    common.cleanup_scratch()
    return rc


def seeds_for(prop, tier, n):
    base = common.seed() * 1000003 + (int(prop[1:]) * 7919) + (0 if tier == 'quick' else 500000)
    return [base * 1000 + i for i in range(n)]
