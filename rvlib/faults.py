"""I/O-fault layer: a state-changing libc call of a redo process *fails* (or transfers only part of its bytes) instead of succeeding.

The LD_PRELOAD shim of C10 counts the same calls (quick tiers: every k-th call, and every call on a target or its temporary file); here call number p returns -1 with an errno (ENOSPC, EIO, EACCES), or is a short
write, once or from p on ("the disk stays full").  Nothing is killed: redo's own error paths run.  What is judged is what the
properties say about *any* history that contains failed commands:

  C04  at the end of the faulted command every target is either what it was before the command or the complete new output
       (never a prefix, never something else); a later successful rebuild leaves no *.redo.tmp behind
  C01  a command that exits 0 - the faulted one, the fault-free one after it, the one after a further edit - leaves every
       target in the requested closure equal to the oracle
  C11  files of the user are byte- and inode-identical after every command
  C08  under a harness-owned jobserver the token pipe holds what it held before, also when redo left through an error path

Panics on a failing call and fault-free follow-up commands that exit non-zero are counted, not judged (no property speaks of them).
"""
import os
import time

from . import common, scen
from .checks import c10

BIG = 150000

PROGRAMS = dict(c10.PROGRAMS)
PROGRAMS.update({
    # rebuild of a target whose output comes through redo's own copy of stdout (many write points) over an older generation
    'stdout-big-rebuild': dict(
        files={'out.do': 'redo-ifchange src\nc=$(cat src)\nhead -c %d /dev/zero | tr "\\0" "$c"\necho\n' % BIG, 'src': 'a\n',
               'top.do': 'redo-ifchange out\nhead -c 20 out\necho\n'},
        pre=[['redo-ifchange', 'top'], ('edit', 'src', 'b\n')], cmd=['redo-ifchange', 'top'], tops=['top'],
        oracle=lambda s: {'out': s['src'].strip()[-1:] * BIG + '\n', 'top': s['src'].strip()[-1:] * 20 + '\n'}),
    'd3-big-rebuild': dict(
        files={'out.do': 'redo-ifchange src\nc=$(cat src)\nhead -c %d /dev/zero | tr "\\0" "$c" > $3\n' % BIG, 'src': 'a\n'},
        pre=[['redo-ifchange', 'out'], ('edit', 'src', 'b\n')], cmd=['redo', 'out'], tops=['out'],
        oracle=lambda s: {'out': s['src'].strip()[-1:] * BIG}),
    # a file of the user whose name a default rule matches, next to generated ones (C11)
    'user-file': dict(
        files={'default.txt.do': 'redo-ifchange src\necho "gen $2 $(cat src)" > $3\n', 'mine.txt': 'written by hand\n', 'src': 'v1\n',
               'top.do': 'redo-ifchange mine.txt made.txt\ncat mine.txt made.txt > $3\n'},
        pre=[['redo-ifchange', 'made.txt']], cmd=['redo-ifchange', 'top'], tops=['top'], user=['mine.txt'],
        oracle=lambda s: {'made.txt': 'gen made %s\n' % s['src'].strip(), 'top': 'written by hand\ngen made %s\n' % s['src'].strip()}),
    # a fan under a jobserver owned by the harness (C08)
    'fan-inherited': dict(
        files={'default.l.do': 'redo-ifchange src\necho "$2($(cat src))" > $3\n',
               'all.do': 'redo-ifchange 1.l 2.l 3.l 4.l 5.l\ncat 1.l 2.l 3.l 4.l 5.l > $3\n', 'src': 'v1\n'},
        pre=[], cmd=['redo-ifchange', 'all'], tops=['all'], slots=3,
        oracle=lambda s: dict([('%d.l' % i, '%d(%s)\n' % (i, s['src'].rstrip('\n'))) for i in range(1, 6)] +
                              [('all', ''.join('%d(%s)\n' % (i, s['src'].rstrip('\n')) for i in range(1, 6)))])),
    'fan-inherited-rebuild': dict(
        files={'default.l.do': 'redo-ifchange src\necho "$2($(cat src))" > $3\n',
               'all.do': 'redo-ifchange 1.l 2.l 3.l 4.l 5.l\ncat 1.l 2.l 3.l 4.l 5.l > $3\n', 'src': 'v1\n'},
        pre=[['redo-ifchange', 'all'], ('edit', 'src', 'v1x\n')], cmd=['redo-ifchange', 'all'], tops=['all'], slots=3,
        oracle=lambda s: dict([('%d.l' % i, '%d(%s)\n' % (i, s['src'].rstrip('\n'))) for i in range(1, 6)] +
                              [('all', ''.join('%d(%s)\n' % (i, s['src'].rstrip('\n')) for i in range(1, 6)))])),
})

KINDS = [('28', 'once'), ('5', 'once'), ('13', 'once'), ('short', 'once'), ('28', 'from'), ('short', 'from')]


def _stamp_all(pj, prog, clock):
    for n in prog['files']:
        clock[0] += 10 ** 9
        os.utime(os.path.join(pj.top, n), ns=(clock[0], clock[0]))


def count_points(name):
    prog = PROGRAMS[name]
    pj = scen.Project(prog['files'], 'ftn')
    try:
        clock = [int(time.time() * 1e9) - 10 ** 12]
        _stamp_all(pj, prog, clock)
        if not c10.prepare(pj, prog, clock):
            return []
        log = os.path.join(os.path.dirname(pj.top), os.path.basename(pj.top) + '.shimlog')
        ctr = log + '.ctr'
        pj.run(prog['cmd'], extra=dict(LD_PRELOAD=c10.ensure_shim(), CRASH_CTR=ctr, CRASH_LOG=log, CRASH_ROOT=pj.top), verif_log=False,
               slots=prog.get('slots'))
        lines = (common.read_file(log) or b'').decode().split('\n')[:-1]
        for f in (log, ctr):
            if os.path.exists(f):
                os.unlink(f)
        return [c10.path_class(l.split(' ')[4], pj.top) for l in lines]
    finally:
        pj.close()


def _user_state(pj, prog):
    out = {}
    for n in prog.get('user', []):
        p = os.path.join(pj.top, n)
        try:
            st = os.lstat(p)
            out[n] = (st.st_ino, st.st_size, st.st_mtime_ns, common.read_file(p))
        except OSError:
            out[n] = None
    return out


def fault_case(item):
    """item = (program, point, errno-or-'short', 'once'|'from') -> result dict whose violations carry a 'prop' field"""
    name, p, kind, mode = item
    prog = PROGRAMS[name]
    pj = scen.Project(prog['files'], 'flt')
    anoms = []
    obs = dict(fault_runs=1, fault_hit=0)
    sets = {}
    try:
        clock = [int(time.time() * 1e9) - 10 ** 12]
        _stamp_all(pj, prog, clock)
        if not c10.prepare(pj, prog, clock):
            return dict(verdict='inconclusive', why='fault layer: pre-history failed', sample=dict(item=list(item)))
        names = list(prog['oracle'](c10.sources_of(pj, prog)))
        before = {n: common.read_file(os.path.join(pj.top, n)) for n in names}
        user0 = _user_state(pj, prog)
        log = os.path.join(os.path.dirname(pj.top), os.path.basename(pj.top) + '.shimlog')
        ctr = log + '.ctr'
        r, tok = pj.run(prog['cmd'], extra=dict(LD_PRELOAD=c10.ensure_shim(), CRASH_CTR=ctr, CRASH_LOG=log, CRASH_ROOT=pj.top, FAULT_AT=str(p),
                                                FAULT_ERRNO=kind, FAULT_MODE=mode), verif_log=False, timeout=40, slots=prog.get('slots'))
        lines = (common.read_file(log) or b'').decode().split('\n')[:-1]
        for f in (log, ctr):
            if os.path.exists(f):
                os.unlink(f)
        hit = [l for l in lines if l.split(' ')[0] == str(p)]
        if not hit:
            return dict(verdict='held', nontrivial=False, shape='nofault', sample=dict(program=name, point=p, hit=False), obs=obs)
        if r.status != 'exit':
            return dict(verdict='inconclusive', why='fault layer: faulted command %s' % r.status, sample=dict(item=list(item)))
        obs['fault_hit'] = 1
        f = hit[0].split(' ')
        point = (f[2], f[3], c10.path_class(f[4], pj.top))
        where = '%s:%s:%s' % (point[1], point[2], 'short' if kind == 'short' else 'errno')
        sets['fault_point_classes'] = ['%s:%s:%s:%s:%s' % (point + (kind, mode))]
        sets['faulted_exit_status'] = [str(r.rc)]
        text = r.err + r.out
        panicked = bool(common.panic_text(text) or r.rc == 101 or 'panicked at' in pj.logs_text() or '(exit 101)' in text or 'exit code 101' in text)
        if panicked:
            obs['panics_on_a_failing_call_not_judged'] = 1
        want = prog['oracle'](c10.sources_of(pj, prog))

        def states():
            st = {}
            for n, b in want.items():
                got = common.read_file(os.path.join(pj.top, n))
                if got is not None and got.decode('utf-8', 'replace') == b:
                    st[n] = 'new'
                elif got == before[n]:
                    st[n] = 'old'
                else:
                    st[n] = 'other'
            return st
        st = states()
        for n, s in sorted(st.items()):
            if s == 'other':
                got = common.read_file(os.path.join(pj.top, n))
                anoms.append(dict(prop='C04', key='io-fault:target-neither-old-nor-complete:%s' % where,
                                  what='%s after a failing %s on %s (%s, %s): %d bytes %r..., expected the previous content or the complete new one (%d bytes); exit %s'
                                  % (n, point[1], point[2], kind, mode, len(got or b''), (got or b'')[:30], len(want[n]), r.rc)))
        obs['targets_old_after_fault'] = sum(1 for s in st.values() if s == 'old')
        obs['targets_new_after_fault'] = sum(1 for s in st.values() if s == 'new')
        if r.rc == 0 and any(s != 'new' for s in st.values()):
            bad = sorted(n for n, s in st.items() if s != 'new')
            for pr in ('C01', 'C04'):
                anoms.append(dict(prop=pr, key='io-fault:exit0-with-incomplete-target:%s' % where,
                                  what='%s exited 0 although %s failed on %s; not the complete new output: %s' % (prog['cmd'], point[1], point[2], bad)))
        if prog.get('user') and _user_state(pj, prog) != user0:
            anoms.append(dict(prop='C11', key='io-fault:user-file-touched:%s' % where, what='user file changed by the faulted command'))
        if tok is not None:
            obs['token_ledgers_closed'] = 1
            sets['faulted_tokens'] = ['%s->%s' % tok]
            if panicked:
                # a process that aborted on an `expect` has no error path to judge (C08 speaks of error exits, C09 of aborts)
                obs['token_ledgers_after_a_panic_not_judged'] = 1
            elif tok[0] != tok[1]:
                anoms.append(dict(prop='C08', key='io-fault:tokens-not-conserved:%s' % where,
                                  what='pipe held %s tokens before and %s after a command that exited %s through a failing %s on %s' % (tok[0], tok[1], r.rc, point[1], point[2])))

        def follow(tag):
            rr, tok2 = pj.run(['redo-ifchange'] + prog['tops'], verif_log=False, timeout=40, slots=prog.get('slots'))
            if rr.status != 'exit':
                obs['followup_not_finished_not_judged'] = obs.get('followup_not_finished_not_judged', 0) + 1
                return
            if prog.get('user') and _user_state(pj, prog) != user0:
                anoms.append(dict(prop='C11', key='io-fault:user-file-touched:%s:%s' % (tag, where), what='user file changed by the %s command' % tag))
            if tok2 is not None and tok2[0] != tok2[1]:
                anoms.append(dict(prop='C08', key='io-fault:tokens-not-conserved:%s:%s' % (tag, where), what='%s -> %s' % tok2))
            if rr.rc != 0:
                if not prog.get('expect_fail_until_fixed') or tag != 'recovery':
                    obs['followup_failed_not_judged'] = obs.get('followup_failed_not_judged', 0) + 1
                return
            obs['followups_exit0_compared'] = obs.get('followups_exit0_compared', 0) + 1
            bad = c10.compare(pj, prog)
            if bad:
                anoms.append(dict(prop='C01', key='io-fault:%s-exit0-stale:%s' % (tag, where),
                                  what='%s wrong after a fault-free redo-ifchange that exited 0 (earlier: %s failed on %s, %s/%s): %s'
                                  % (bad, point[1], point[2], kind, mode, (rr.err or '')[-200:].replace('\n', ' | '))))
            left = [n for n in os.listdir(pj.top) if n.endswith('.redo.tmp')]
            if left:
                anoms.append(dict(prop='C04', key='io-fault:tmp-left-after-successful-rebuild:%s:%s' % (tag, where), what=str(left)))

        follow('recovery')
        for n in prog['files']:
            if not n.endswith('.do') and n not in prog.get('user', []):
                old = common.read_file(os.path.join(pj.top, n)).decode()
                new = 'ok\n' if n == 'flag' else ('c\n' if name.endswith('big-rebuild') else 'v2-' + old)
                common.write_file(os.path.join(pj.top, n), new)
                clock[0] += 10 ** 9
                os.utime(os.path.join(pj.top, n), ns=(clock[0], clock[0]))
        follow('after-edit')
    finally:
        pj.close()
    res = dict(verdict='violated' if anoms else 'held', nontrivial=True, shape=common.shash(['fault', name, p, kind, mode]),
               sample=dict(layer='io-fault', program=name, point=p, kind=kind, mode=mode), obs=obs, sets=sets)
    if anoms:
        res['violations'] = anoms
        res['replay'] = dict(kind='io-fault', item=list(item))
    return res


def for_prop(res, prop):
    """The share of a fault case that belongs to one property."""
    if res.get('verdict') != 'violated':
        return res
    mine = [v for v in res['violations'] if v.get('prop') == prop]
    out = dict(res)
    if mine:
        out['violations'] = mine
    else:
        out['verdict'] = 'held'
        out.pop('violations', None)
        out.pop('replay', None)
    return out


def items(programs, rnd, every, kinds=None):
    """Every `every`-th call of each program (random phase), each with one of the kinds in turn."""
    kinds = kinds or KINDS
    out = []
    counts = {}
    for n in programs:
        classes = count_points(n)
        cnt = len(classes)
        counts[n] = cnt
        off = rnd.randrange(every)
        for i, p in enumerate(range(1 + off, cnt + 1, every)):
            if every == 1:
                for k in kinds:
                    out.append((n, p, k[0], k[1]))
            else:
                k = kinds[(i + off) % len(kinds)]
                out.append((n, p, k[0], k[1]))
        if every > 1:
            # calls on the targets themselves and on their temporary files are always taken, with three kinds each
            for p, c in enumerate(classes, 1):
                if c in ('target', 'target-tmp'):
                    for k in (('28', 'once'), ('5', 'once'), ('short', 'once')):
                        if (n, p, k[0], k[1]) not in out:
                            out.append((n, p, k[0], k[1]))
    return out, counts


class FaultFor:
    """Picklable case function: one fault case, reduced to the anomalies of one property."""

    def __init__(self, prop):
        self.prop = prop

    def __call__(self, item):
        return for_prop(fault_case(tuple(item)), self.prop)


LAYER_PROGRAMS = {
    'C01': ['chain-stamp-rebuild', 'chain-stamp-same-rebuild', 'always-ifcreate', 'diamond-default', 'chain-rebuild', 'append-rebuild'],
    'C04': ['stdout-big-rebuild', 'd3-big-rebuild', 'stdout-chain', 'append-rebuild', 'chain-first'],
    'C08': ['fan-inherited', 'fan-inherited-rebuild'],
    'C11': ['user-file'],
}
LAYER_RULE = (' I/O-fault layer: an LD_PRELOAD shim makes the p-th state-changing libc call of the redo processes (create, write, rename, unlink, mkdir, ftruncate '
              'on files of the project, the database, its WAL and the logs) fail with ENOSPC / EIO / EACCES or transfer half of its bytes, once or from p on '
              '(a disk that stays full refuses creates and writes); judged: %s. Panics on a failing call and fault-free follow-up commands that exit non-zero are counted, not judged.')
LAYER_JUDGED = {
    'C01': 'every command that exits 0 (the faulted one, the fault-free one after it, the one after a further edit of every source) leaves the requested closure equal to the oracle',
    'C04': 'after the faulted command every target is its previous content or the complete new output, a command that exits 0 left the complete output, and a later successful rebuild leaves no *.redo.tmp',
    'C08': 'the harness-owned token pipe holds after the faulted command (and after the follow-ups) what it held before, whenever no redo process aborted',
    'C11': 'the file of the user (matched by a default rule, used as a source) keeps inode, size, mtime and bytes through the faulted command and the follow-ups',
}


def layer(prop, tier, rnd):
    """-> (case function, items, coverage note) for the fault layer of one check"""
    every = {'C01': 6, 'C04': 3, 'C08': 5, 'C11': 2}[prop] if tier == 'quick' else 1
    its, counts = items(LAYER_PROGRAMS[prop], rnd, every)
    return FaultFor(prop), its, dict(io_fault_points_per_program=counts, io_fault_cases=len(its))


def is_fault_replay(path):
    import json
    try:
        return (json.load(open(path)).get('replay') or {}).get('kind') == 'io-fault'
    except (OSError, ValueError):
        return False


def replay(prop, path):
    import json
    d = json.load(open(path))
    common.ensure_built()
    r = FaultFor(prop)(tuple(d['replay']['item']))
    print(r.get('verdict'), r.get('violations') or r.get('why'))
    common.cleanup_scratch()
    if r.get('verdict') == 'violated':
        print('VIOLATION property=%s replay=%s' % (prop, path))
        return 1
    return 0
