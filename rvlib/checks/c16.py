"""C16 - Concurrent commands on one project do not fail spuriously or lose state."""
import os
import random
import re
import shutil
import sqlite3
import time

from .. import common, scen
from ..framework import Collector

PROP = 'C16'

ERR_RE = re.compile(r'database is locked|database table is locked|SQLITE_|busy|failed to insert|could not connect|no such table|schema version|'
                    r'disk I/O|malformed|Resource deadlock|EDEADLK|readonly database|lock', re.I)


def make_files(ninv, shared):
    files = {'default.leaf.do': scen.leaf_do('sleep 0.0$(( $$ % 3 ))')}
    for i in range(ninv):
        leaves = ['i%d_%d.leaf' % (i, k) for k in range(3)]
        files['i%d_mid.do' % i] = scen.node_do(leaves[:2] + (['sh.leaf'] if shared else []))
        files['i%d_top.do' % i] = scen.node_do(['i%d_mid' % i, leaves[2]] + (['shmid'] if shared else []))
    files['shmid.do'] = scen.node_do(['sh.leaf', 'sh2.leaf'])
    return files


def expected_rows(i, shared):
    t = ['i%d_top' % i, 'i%d_mid' % i] + ['i%d_%d.leaf' % (i, k) for k in range(3)]
    e = [('i%d_top' % i, 'i%d_mid' % i), ('i%d_top' % i, 'i%d_2.leaf' % i), ('i%d_mid' % i, 'i%d_0.leaf' % i), ('i%d_mid' % i, 'i%d_1.leaf' % i)]
    if shared:
        e += [('i%d_top' % i, 'shmid'), ('i%d_mid' % i, 'sh.leaf')]
    return t, e


def case(item):
    ninv, fresh, shared, nquery, delay, seed = item
    rnd = random.Random(repr(item))
    pj = scen.Project(make_files(ninv, shared), 'c16')
    anoms = []
    obs = dict(rounds=1, invocations=0, failed_invocations=0)
    sets = {}
    try:
        if not fresh:
            r, _ = pj.run(['redo-ifchange', 'shmid'], verif_log=False)
            if r.rc != 0:
                return dict(verdict='inconclusive', why='could not initialise the project: %s' % r.err[-200:], sample=dict(item=list(item)))
        extra = {}
        if delay:
            extra['REDO_VERIF_DELAY'] = delay
        cmds = []
        builders = []
        for i in range(ninv):
            kind = rnd.choice(['redo', 'redo-ifchange', 'redo-j'])
            if kind == 'redo':
                argv = ['redo', 'i%d_top' % i]
            elif kind == 'redo-j':
                argv = ['redo', '-j3', 'i%d_top' % i]
            else:
                argv = ['redo-ifchange', 'i%d_top' % i]
            cmds.append(dict(argv=argv, extra=extra, delay=rnd.random() * 0.004))
            builders.append(i)
        qnames = ['redo-ood', 'redo-targets', 'redo-sources']
        for q in range(nquery):
            cmds.append(dict(argv=[rnd.choice(qnames)], extra=extra, delay=rnd.random() * 0.05))
        if not fresh and nquery:
            cmds.append(dict(argv=['redo-log', 'shmid'], extra=extra, delay=rnd.random() * 0.05))
        res = pj.run_many(cmds, timeout=90, barrier=('spin' if seed < 0 else (seed % 2 == 0)))
        obs['invocations'] = len(cmds)
        logs = pj.logs_text()
        for c, r in zip(cmds, res):
            name = c['argv'][0]
            if r.status == 'timeout':
                return dict(verdict='inconclusive', why='watchdog without stuck witness', sample=dict(item=list(item)))
            for a in scen.crash_anoms(r, '', 'c16'):
                anoms.append(dict(key='c16-' + a['key'], what='%s: %s' % (c['argv'], a['what'])))
            if r.status == 'exit' and r.rc != 0:
                obs['failed_invocations'] += 1
                text = (r.err + r.out)
                m = ERR_RE.search(text)
                ec = scen.classify_error(text) or ('other:' + (m.group(0).lower() if m else 'rc=%s' % r.rc))
                anoms.append(dict(key='spurious-failure:%s:%s:%s' % ('first-creation' if fresh else 'existing-project', name if name.startswith('redo-') else 'redo', ec),
                                  what='%s exited %s although every script succeeds: %s' % (c['argv'], r.rc, text[-300:].replace('\n', ' | '))))
            sets.setdefault('commands', set()).add(name)
        # ---- database afterwards
        db = os.path.join(pj.top, '.redo', 'db.sqlite3')
        tmpd = common.new_dir('c16db')
        try:
            for suf in ('', '-wal', '-shm'):
                if os.path.exists(db + suf):
                    shutil.copy(db + suf, os.path.join(tmpd, 'db.sqlite3' + suf))
            con = sqlite3.connect(os.path.join(tmpd, 'db.sqlite3'))
            integ = con.execute('pragma integrity_check').fetchall()
            if integ != [('ok',)]:
                anoms.append(dict(key='integrity-check', what=str(integ)[:300]))
            names = dict((n, i) for i, n in con.execute('select rowid, name from Files'))
            deps = set(con.execute('select target, source from Deps'))
            con.close()
            ok_builders = [i for i, r in zip(builders, res) if r.status == 'exit' and r.rc == 0]
            for i in ok_builders:
                t, e = expected_rows(i, shared)
                for n in t:
                    if n not in names:
                        anoms.append(dict(key='lost-file-row', what='%s was built by a successful invocation but has no Files row' % n))
                    if not os.path.exists(os.path.join(pj.top, n)):
                        anoms.append(dict(key='lost-output', what='%s missing although its invocation exited 0' % n))
                for a, b in e:
                    if a in names and b in names and (names[a], names[b]) not in deps:
                        anoms.append(dict(key='lost-dependency-edge', what='%s -> %s declared by a successful invocation is not in Deps' % (a, b)))
            obs['files_rows'] = len(names)
            obs['deps_rows'] = len(deps)
        except sqlite3.Error as e:
            anoms.append(dict(key='database-unreadable', what=str(e)))
        finally:
            common.rmtree(tmpd)
    finally:
        pj.close()
    r = dict(verdict='violated' if anoms else 'held', nontrivial=True, shape=common.shash(list(item)),
             sample=dict(invocations=ninv, queries=nquery, fresh_project=fresh, shared_targets=shared, delay=delay), obs=obs,
             sets={k: sorted(v) for k, v in sets.items()})
    if anoms:
        seen = set()
        r['violations'] = [a for a in anoms if not (a['key'] in seen or seen.add(a['key']))]
        r['replay'] = dict(kind='c16', item=list(item))
    return r


SAME_FILES = {
    'st.do': scen.TRACE_HDR + 'echo "S $1 $$ $PPID" >&9\nredo-ifchange src\nsleep 0.05\nhead -n 1 src > "$3"\nredo-stamp < "$3"\necho "E $1 $$ 0" >&9\n',
    'mid.do': scen.TRACE_HDR + 'echo "S $1 $$ $PPID" >&9\nredo-ifchange st\nsleep 0.05\necho "mid $(cat st)" > "$3"\necho "E $1 $$ 0" >&9\n',
    'top.do': scen.TRACE_HDR + 'echo "S $1 $$ $PPID" >&9\nredo-ifchange mid side.leaf\nsleep 0.1\necho "top $(cat mid)" > "$3"\necho "E $1 $$ 0" >&9\n',
    'default.leaf.do': scen.leaf_do(''),
    'src': 'v0\nrest0\n',
}


def same_target_case(item):
    """All invocations want the same targets (top -> mid -> checksummed st -> src) after a change below the checksummed one, so that
    they meet each other's locks and the out-of-band path: none may fail, and what is there afterwards is complete and up to date."""
    _, ninv, change, nquery, seed = item
    rnd = random.Random(repr(item))
    pj = scen.Project(SAME_FILES, 'c16s')
    anoms = []
    obs = dict(rounds=1, invocations=0, failed_invocations=0, same_target_rounds=1)
    sets = {}
    try:
        r, _ = pj.run(['redo-ifchange', 'top'], verif_log=False)
        if r.rc != 0:
            return dict(verdict='inconclusive', why='could not initialise the project: %s' % r.err[-200:], sample=dict(item=list(item)))
        new = {'new-checksum': 'v1\nrest1\n', 'same-checksum': 'v0\nother\n', 'none': None, 'removed': None}[change]
        if change == 'removed':
            # generated files removed by hand: whoever looks at them first (a build or a query) finds a target that has gone missing
            for n in ('st', 'side.leaf'):
                os.unlink(os.path.join(pj.top, n))
        if new:
            common.write_file(os.path.join(pj.top, 'src'), new)
            os.utime(os.path.join(pj.top, 'src'), ns=(int(time.time() * 1e9) + 5 * 10 ** 9,) * 2)
        cmds = []
        for i in range(ninv):
            argv = rnd.choice([['redo-ifchange', 'top'], ['redo-ifchange', 'top'], ['redo', 'top'], ['redo', '-j3', 'top'], ['redo-ifchange', 'mid', 'top'], ['redo-ifchange', 'st']])
            cmds.append(dict(argv=argv, delay=rnd.random() * 0.05))
        for q in range(nquery + (4 if change == 'removed' else 0)):
            cmds.append(dict(argv=[rnd.choice(['redo-ood', 'redo-ood', 'redo-targets', 'redo-sources'])], delay=rnd.random() * 0.2))
        res = pj.run_many(cmds, timeout=90, barrier=(seed % 2 == 0))
        obs['invocations'] = len(cmds)
        for c, r in zip(cmds, res):
            name = c['argv'][0]
            if r.status == 'timeout':
                return dict(verdict='inconclusive', why='watchdog without stuck witness', sample=dict(item=list(item)))
            for a in scen.crash_anoms(r, '', 'c16'):
                anoms.append(dict(key='c16-' + a['key'], what='%s: %s' % (c['argv'], a['what'])))
            if r.status == 'exit' and r.rc != 0:
                obs['failed_invocations'] += 1
                text = (r.err + r.out)
                m = ERR_RE.search(text)
                ec = scen.classify_error(text) or ('other:' + (m.group(0).lower() if m else 'rc=%s' % r.rc))
                anoms.append(dict(key='spurious-failure:same-targets:%s:%s' % (name if name.startswith('redo-') else 'redo', ec),
                                  what='%s exited %s although every script succeeds (change: %s): %s' % (c['argv'], r.rc, change, text[-300:].replace('\n', ' | '))))
            sets.setdefault('commands', set()).add(name)
        if not anoms:
            first = (new or SAME_FILES['src']).split('\n')[0]
            want = {'st': first + '\n', 'mid': 'mid %s\n' % first, 'top': 'top mid %s\n' % first}
            asked_top = any('top' in c['argv'] for c in cmds)
            for n, b in want.items():
                got = (common.read_file(os.path.join(pj.top, n)) or b'').decode()
                if got != b and (asked_top or n == 'st'):
                    anoms.append(dict(key='lost-state:same-targets:%s-not-up-to-date' % n, what='%s holds %r after all invocations exited 0, expected %r (change: %s)' % (n, got, b, change)))
            rq, _ = pj.run(['redo-ood'], verif_log=False)
            if rq.rc != 0:
                anoms.append(dict(key='spurious-failure:same-targets:redo-ood-afterwards', what='redo-ood exits %s: %s' % (rq.rc, rq.err[-200:])))
            if asked_top and rq.rc == 0 and rq.out.strip():
                # Not judged: a run that started later (higher run id) may build `st` before an older run builds `mid`; `st` then
                # looks "built more recently than its parent" and the next command rebuilds `mid` once more.  Safe, and no
                # property speaks of over-building across concurrent commands (C02/C07 are about one command at a time).
                obs['rounds_after_which_redo_ood_lists_something_not_judged'] = 1
            left = [n for n in os.listdir(pj.top) if n.endswith('.redo.tmp')]
            if left:
                anoms.append(dict(key='lost-state:same-targets:tmp-left', what=str(left)))
    finally:
        pj.close()
    r = dict(verdict='violated' if anoms else 'held', nontrivial=True, shape=common.shash(list(item)),
             sample=dict(kind='same-targets', invocations=ninv, queries=nquery, change=change), obs=obs, sets={k: sorted(v) for k, v in sets.items()})
    if anoms:
        seen = set()
        r['violations'] = [a for a in anoms if not (a['key'] in seen or seen.add(a['key']))]
        r['replay'] = dict(kind='c16', item=list(item))
    return r


def ood_missing_case(item):
    """Only queries, on a built project from which generated files have been removed by hand: redo-ood meets targets that have gone
    missing (and wants to note that) while other commands start up and allocate their run ids.  Nothing may fail."""
    _, nq, nood, seed = item
    files = {'default.leaf.do': 'echo leaf > $3\n',
             'default.mid.do': 'redo-ifchange $2.leaf a$2.leaf b$2.leaf\ncat $2.leaf > $3\n',
             'top.do': 'redo-ifchange 1.mid 2.mid 3.mid 4.mid 5.mid 6.mid 7.mid 8.mid\necho top > $3\n'}
    pj = scen.Project(files, 'c16o')
    anoms = []
    obs = dict(rounds=1, invocations=0, failed_invocations=0, query_only_rounds=1)
    sets = {}
    try:
        r, _ = pj.run(['redo-ifchange', 'top'], verif_log=False)
        if r.rc != 0:
            return dict(verdict='inconclusive', why='could not initialise the project', sample=dict(item=list(item)))
        for n in os.listdir(pj.top):
            if n.endswith('.leaf'):
                os.unlink(os.path.join(pj.top, n))
        rnd = random.Random(repr(item))
        cmds = [dict(argv=[rnd.choice(['redo-targets', 'redo-sources'])], delay=rnd.random() * 0.01) for _ in range(nq)]
        cmds += [dict(argv=['redo-ood'], delay=rnd.random() * 0.005) for _ in range(nood)]
        res = pj.run_many(cmds, timeout=90, barrier=(seed % 2 == 0))
        obs['invocations'] = len(cmds)
        for c, r in zip(cmds, res):
            name = c['argv'][0]
            if r.status == 'timeout':
                return dict(verdict='inconclusive', why='watchdog without stuck witness', sample=dict(item=list(item)))
            for a in scen.crash_anoms(r, '', 'c16'):
                anoms.append(dict(key='c16-' + a['key'], what='%s: %s' % (c['argv'], a['what'])))
            if r.status == 'exit' and r.rc != 0:
                obs['failed_invocations'] += 1
                text = (r.err + r.out)
                m = ERR_RE.search(text)
                ec = scen.classify_error(text) or ('other:' + (m.group(0).lower() if m else 'rc=%s' % r.rc))
                anoms.append(dict(key='spurious-failure:queries-with-missing-targets:%s:%s' % (name, ec),
                                  what='%s exited %s among %d concurrent queries on a project whose generated leaves were removed by hand: %s'
                                       % (c['argv'], r.rc, len(cmds), text[-300:].replace('\n', ' | '))))
            sets.setdefault('commands', set()).add(name)
    finally:
        pj.close()
    r = dict(verdict='violated' if anoms else 'held', nontrivial=True, shape=common.shash(list(item)),
             sample=dict(kind='queries-with-missing-targets', queries=nq, ood=nood), obs=obs, sets={k: sorted(v) for k, v in sets.items()})
    if anoms:
        seen = set()
        r['violations'] = [a for a in anoms if not (a['key'] in seen or seen.add(a['key']))]
        r['replay'] = dict(kind='c16', item=list(item))
    return r


def lockhold_case(item):
    """Another process holds the write lock of the database for several seconds (as a query over a large project does): commands
    started meanwhile wait for it, they do not give up."""
    _, hold, seed = item
    import threading
    pj = scen.Project(SAME_FILES, 'c16h')
    anoms = []
    obs = dict(rounds=1, invocations=0, failed_invocations=0, lock_holder_rounds=1)
    sets = {}
    try:
        r, _ = pj.run(['redo-ifchange', 'top'], verif_log=False)
        if r.rc != 0:
            return dict(verdict='inconclusive', why='could not initialise the project', sample=dict(item=list(item)))
        db = os.path.join(pj.top, '.redo', 'db.sqlite3')
        held = threading.Event()
        problems = []

        def holder():
            try:
                con = sqlite3.connect(db, timeout=30, isolation_level=None)
                con.execute('BEGIN IMMEDIATE')
                held.set()
                time.sleep(hold)
                con.execute('ROLLBACK')
                con.close()
            except sqlite3.Error as e:
                problems.append(str(e))
                held.set()
        th = threading.Thread(target=holder)
        th.start()
        held.wait(20)
        if problems:
            th.join()
            return dict(verdict='inconclusive', why='the lock holder could not start: %s' % problems[0], sample=dict(item=list(item)))
        t0 = time.time()
        cmds = [dict(argv=['redo-ifchange', 'top']), dict(argv=['redo-targets']), dict(argv=['redo-ood']), dict(argv=['redo', 'mid']), dict(argv=['redo-sources'])]
        res = pj.run_many(cmds, timeout=120)
        th.join()
        obs['invocations'] = len(cmds)
        obs['seconds_the_write_lock_was_held'] = hold
        for c, r in zip(cmds, res):
            name = c['argv'][0]
            if r.status == 'timeout':
                return dict(verdict='inconclusive', why='watchdog without stuck witness', sample=dict(item=list(item)))
            if r.status == 'exit' and r.rc != 0:
                obs['failed_invocations'] += 1
                text = (r.err + r.out)
                m = ERR_RE.search(text)
                ec = scen.classify_error(text) or ('other:' + (m.group(0).lower() if m else 'rc=%s' % r.rc))
                anoms.append(dict(key='spurious-failure:write-lock-held-by-another-process:%s:%s' % (name if name.startswith('redo-') else 'redo', ec),
                                  what='%s exited %s after %.1f s while another process held the write lock for %s s: %s' % (c['argv'], r.rc, time.time() - t0, hold, text[-200:].replace('\n', ' | '))))
            sets.setdefault('commands', set()).add(name)
    finally:
        pj.close()
    r = dict(verdict='violated' if anoms else 'held', nontrivial=True, shape=common.shash(list(item)),
             sample=dict(kind='write-lock-held', hold=hold), obs=obs, sets={k: sorted(v) for k, v in sets.items()})
    if anoms:
        seen = set()
        r['violations'] = [a for a in anoms if not (a['key'] in seen or seen.add(a['key']))]
        r['replay'] = dict(kind='c16', item=list(item))
    return r


def stalled_reader_case(item):
    """A query prints more than its reader takes (redo-ood into a pipe that nobody reads for a while, as under a pager): other
    commands must not have to wait for that reader."""
    _, nleaf, seed = item
    import fcntl
    import subprocess
    names = ['leaf-with-a-rather-long-name-%04d.leaf' % i for i in range(nleaf)]
    files = {'default.leaf.do': 'redo-ifchange src\necho leaf > $3\n', 'src': 'v0\n',
             'top.do': 'redo-ifchange %s\necho top > $3\n' % ' '.join(names)}
    pj = scen.Project(files, 'c16r')
    anoms = []
    obs = dict(rounds=1, invocations=0, failed_invocations=0, stalled_reader_rounds=1)
    p = None
    try:
        r, _ = pj.run(['redo', '-j8', 'top'], verif_log=False, timeout=180)
        if r.rc != 0:
            return dict(verdict='inconclusive', why='could not initialise the project', sample=dict(item=list(item)))
        common.write_file(os.path.join(pj.top, 'src'), 'v1\n')
        os.utime(os.path.join(pj.top, 'src'), ns=(int(time.time() * 1e9) + 5 * 10 ** 9,) * 2)
        rd, wr = os.pipe()
        try:
            fcntl.fcntl(wr, 1031, 4096)          # F_SETPIPE_SZ: the smallest pipe the kernel gives
        except OSError:
            pass
        p = subprocess.Popen(['redo-ood'], cwd=pj.top, env=pj.env(verif_log=False), stdin=subprocess.DEVNULL, stdout=wr, stderr=subprocess.PIPE, start_new_session=True)
        os.close(wr)
        # wait until the query sits in a write to the full pipe (or has ended: then the output was too small to stall it)
        t0 = time.time()
        blocked = False
        while time.time() - t0 < 30 and p.poll() is None:
            try:
                st = open('/proc/%d/wchan' % p.pid).read()
            except OSError:
                st = ''
            if 'pipe' in st:
                blocked = True
                break
            time.sleep(0.02)
        if not blocked:
            out = os.read(rd, 1 << 20)
            os.close(rd)
            p.wait(timeout=30)
            return dict(verdict='held', nontrivial=False, shape='nostall', sample=dict(kind='stalled-reader', stalled=False), obs=obs)
        obs['queries_stalled_on_their_reader'] = 1
        res = pj.run_many([dict(argv=['redo-targets']), dict(argv=['redo-sources']), dict(argv=['redo-ifchange', 'src'])], timeout=25)
        obs['invocations'] = 3
        still_stalled = p.poll() is None
        for c, r in zip(('redo-targets', 'redo-sources', 'redo-ifchange'), res):
            if r.status != 'exit' or r.rc != 0:
                obs['failed_invocations'] += 1
                anoms.append(dict(key='blocked-by-a-query-whose-reader-stalls:%s' % c,
                                  what='%s did not finish (%s, rc %s) within 25 s while redo-ood sat in a write to a full pipe (still there: %s): %s'
                                       % (c, r.status, r.rc, still_stalled, (r.err or '')[-200:].replace('\n', ' | '))))
        # now the reader wakes up
        chunks = []
        while True:
            b = os.read(rd, 65536)
            if not b:
                break
            chunks.append(b)
        os.close(rd)
        p.wait(timeout=60)
        if p.returncode != 0:
            anoms.append(dict(key='spurious-failure:stalled-reader:redo-ood', what='redo-ood exits %s: %s' % (p.returncode, p.stderr.read().decode('utf-8', 'replace')[-200:])))
        obs['bytes_the_query_printed'] = sum(len(c) for c in chunks)
    finally:
        if p is not None and p.poll() is None:
            common.kill_session(p.pid)
        pj.close()
    r = dict(verdict='violated' if anoms else 'held', nontrivial=True, shape=common.shash(list(item)),
             sample=dict(kind='stalled-reader', leaves=nleaf), obs=obs, sets=dict(commands=['redo-ood|stalled']))
    if anoms:
        r['violations'] = anoms[:3]
        r['replay'] = dict(kind='c16', item=list(item))
    return r


def dispatch(item):
    if item[0] == 'same':
        return same_target_case(tuple(item))
    if item[0] == 'oodmiss':
        return ood_missing_case(tuple(item))
    if item[0] == 'lockhold':
        return lockhold_case(tuple(item))
    if item[0] == 'stalled':
        return stalled_reader_case(tuple(item))
    return case(tuple(item))


RULE = ('rounds of n in {2,4,8,16} invocations released within a few milliseconds (half of the rounds: released in the same instant through a FIFO barrier; extra fresh-project rounds with busy-waiting starters) against one project: redo / redo -j3 / redo-ifchange on '
        'private sub-graphs (optionally sharing two targets) plus redo-ood / redo-targets / redo-sources / redo-log; on an existing '
        'project and on a project without .redo (first-creation race); with delay hooks inside start-up (between the existence test and '
        'connect, between the schema read and the run-id insert). All scripts succeed by construction, so every invocation must exit 0; '
        'afterwards integrity_check = ok, every target of a successful invocation has its Files row, its declared Deps edges and its file. '
        'Same-target rounds: 2-5 invocations (redo-ifchange / redo / redo -j3, plus queries) all ask for one chain top -> mid -> checksummed st -> src after a change below the checksummed target (checksum kept, changed, no change, or the checksummed target and a leaf removed by hand, with four more queries): they meet each other at the locks and on the out-of-band path; every one exits 0, afterwards the chain holds the new content, redo-ood works, no temporary output is left (what redo-ood lists is counted, not judged: run ids of concurrent commands can make a parent look older than a dependency built by a later-started run). Stalled-reader rounds: redo-ood prints 300 long names into a 4 KiB pipe that nobody reads; while it sits in that write, redo-targets, redo-sources and a redo-ifchange must finish. Lock-holder rounds: another process (the harness, through SQLite) holds the write lock of the database for 3-4.5 s; five commands started meanwhile wait and exit 0. Query-only rounds: 4-8 redo-targets / redo-sources and 1-3 redo-ood released together on a built project whose generated leaves were removed by hand (redo-ood meets targets that have gone missing while others allocate run ids): every query exits 0. Every round is non-trivial; distinct = parameter tuple (incl. seed).')
ASSUME = ['only targets known to redo are queried with redo-log', 'script-attributable failures are impossible by construction']


def main(tier):
    quick = tier == 'quick'
    rnd = random.Random(common.seed())
    col = Collector(PROP, tier, 'exploration', RULE, ASSUME, floor=20)
    items = []
    delays = [None, 'init_after_exists=~15', 'init_after_schema=~10', 'init_after_exists=~10,init_after_schema=~10']
    for rep in range(8 if quick else 60):
        for ninv in (2, 4, 8) + (() if quick else (16,)):
            for fresh in (False, True):
                for shared in (False, True):
                    items.append((ninv, fresh, shared, rnd.choice([0, 2, 6]), rnd.choice(delays), rnd.randrange(10 ** 6)))
    for rep in range(4 if quick else 40):
        for ninv in (2, 3, 5):
            for change in ('new-checksum', 'same-checksum', 'none', 'removed'):
                items.append(('same', ninv, change, rnd.choice([0, 2]), rnd.randrange(10 ** 6)))
    for rep in range(1 if quick else 6):
        items.append(('stalled', 300, rep))
    for rep in range(2 if quick else 12):
        items.append(('lockhold', rnd.choice([3.0, 4.5]), rep))
    for rep in range(10 if quick else 120):
        items.append(('oodmiss', rnd.choice([4, 6, 8]), rnd.choice([1, 2, 3]), rnd.randrange(10 ** 6)))
    rnd.shuffle(items)
    deadline = time.time() + (80 if quick else 800)
    # rounds are themselves parallel: run a few at a time so that invocations really coincide
    for r in common.pmap(dispatch, items, procs=4, deadline=deadline):
        col.add(r)
    # rounds whose starters busy-wait for the go signal (tightest simultaneity): one round at a time, <= 12 starters
    spin = [(ninv, True, False, 12 - ninv, None, -1 - i) for i, ninv in enumerate([6, 8, 4, 6, 8, 6] * (4 if quick else 40))]
    for r in common.pmap(case, spin, procs=1, deadline=time.time() + (40 if quick else 400)):
        col.add(r)
    rc = col.finish()
    common.cleanup_scratch()
    return rc


def replay(path):
    import json
    d = json.load(open(path))
    common.ensure_built()
    r = dispatch(tuple(d['replay']['item']))
    print(r.get('verdict'), r.get('violations'))
    common.cleanup_scratch()
    if r.get('verdict') == 'violated':
        print('VIOLATION property=%s replay=%s' % (PROP, path))
        return 1
    return 0
