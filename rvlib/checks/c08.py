"""C08 - Job tokens are conserved and -j is respected."""
import os
import random
import re
import time

from .. import common, gate, scen, tokens
from ..common import run_cmd
from ..framework import Collector
from ..jobserver import HarnessJobserver
from ..prog import parse_trace, max_work_overlap

PROP = 'C08'


def fail_do():
    return (scen.TRACE_HDR + 'echo "S $1 $$ $PPID" >&9\necho "W+ $1 $$" >&9\nsleep 0.0$(( $$ % 5 ))\necho "W- $1 $$" >&9\n'
            'echo "E $1 $$ 5" >&9\nexit 5\n')


def make_graph(shape, n, rnd, outcome):
    """-> (files, top, nscripts_expected_on_success).  Work sections (W+/W-) are script code outside redo-ifchange."""
    files = {}
    sl = lambda: 'sleep 0.%02d' % rnd.choice([0, 1, 2, 3, 5, 8])
    files['default.leaf.do'] = scen.leaf_do('sleep 0.0$(( $$ % 7 ))')
    files['default.bad.do'] = fail_do()
    leaves = ['l%d.leaf' % i for i in range(n)]
    if outcome in ('fail', 'failk'):
        used = min(n, 12) if shape == 'chain' else n        # (a chain only uses the first dozen leaves)
        for i in sorted(rnd.sample(range(used), max(1, used // 6))):
            leaves[i] = 'l%d.bad' % i
    if shape == 'fan':
        files['top.do'] = scen.node_do(leaves, sl())
    elif shape == 'nested':
        k = rnd.choice([2, 3, 4])
        groups = [leaves[i::k] for i in range(k)]
        for gi, g in enumerate(groups):
            files['g%d.do' % gi] = scen.node_do(g, sl())
        files['top.do'] = scen.node_do(['g%d' % gi for gi in range(k)], sl())
    elif shape == 'diamond':
        k = 3
        for gi in range(k):
            mine = [l for i, l in enumerate(leaves) if i % k == gi or i % 4 == 0]      # every 4th leaf is shared
            files['g%d.do' % gi] = scen.node_do(mine, sl())
        files['top.do'] = scen.node_do(['g%d' % gi for gi in range(k)], sl())
    elif shape == 'chain':
        prev = leaves[:2]
        for d in range(min(n, 10)):
            files['c%d.do' % d] = scen.node_do(prev + leaves[2 + d:3 + d], sl())
            prev = ['c%d' % d]
        files['top.do'] = scen.node_do(prev + leaves[-2:], sl())
    elif shape == 'split':
        # a script that asks for its dependencies one by one: tokens are taken and returned repeatedly
        files['top.do'] = scen.node_do(leaves, sl(), split=True)
    elif shape == 'nestedj1':
        # a script runs `redo -j1` on all the leaves while the outer jobserver has slots to spare: the inner command is serial
        # whatever the outer -j is
        files['top.do'] = (scen.TRACE_HDR + 'echo "S $1 $$ $PPID" >&9\nredo -j1 %s\necho "W+ $1 $$" >&9\necho "W- $1 $$" >&9\necho top > "$3"\necho "E $1 $$ 0" >&9\n'
                           % ' '.join(leaves))
        files['default.leaf.do'] = scen.leaf_do('sleep 0.05')
    elif shape == 'sharedfail':
        # several groups need one slow target that fails: all but one of them meet it locked, wait, and find it failed
        files['sfail.do'] = scen.TRACE_HDR + 'echo "S $1 $$ $PPID" >&9\necho "W+ $1 $$" >&9\nsleep 0.3\necho "W- $1 $$" >&9\necho "E $1 $$ 4" >&9\nexit 4\n'
        k = 3
        for gi in range(k):
            files['g%d.do' % gi] = scen.node_do(['sfail'] + leaves[gi::k][:2], sl())
        files['top.do'] = scen.node_do(['g%d' % gi for gi in range(k)], sl())
    elif shape.startswith('cheat'):
        # the followed (first) job waits for a target that a sibling is building, gives its slot away while it
        # waits, and finds every slot taken when it may continue: the one situation in which redo borrows a slot
        k = rnd.choice([1, 2, 3])
        hold = 'sleep 0.%d' % rnd.choice([5, 6, 8])
        forced = shape.startswith('cheatf')       # the waiting job asks with `redo` (forced): after borrowing a slot it starts a job on it
        nested = shape.startswith('cheatn')       # after returning on the borrowed slot the script starts a nested `redo -j2` (own jobserver)
        nsh = int(shape[6 if (forced or nested) else 5:] or 0) or rnd.choice([1, 2, 2, 3])      # with several locked targets the borrowed slot is given up and borrowed again
        shared = ['shared%d' % i for i in range(nsh)]
        for i, sh in enumerate(shared):
            files[sh + '.do'] = scen.leaf_do('sleep 0.%d' % (2 + 2 * i))
            files['b%d.do' % i] = scen.node_do([sh], 'sleep 0.3')
        files['a.do'] = scen.TRACE_HDR + ('echo "S $1 $$ $PPID" >&9\nsleep 0.0%d\n%s %s %s\necho "W+ $1 $$" >&9\nsleep 0.1\n'
                                          'echo "W- $1 $$" >&9\n%secho a > $3\necho "E $1 $$ 0" >&9\n' % (5 + nsh, 'redo' if forced else 'redo-ifchange', ' '.join(shared), ' '.join(leaves[:1]),
                                                                                           'redo -j2 inner\n' if nested else ''))
        if nested:
            files['inner.do'] = scen.node_do(['in1.leaf', 'in2.leaf', 'in3.leaf'], 'sleep 0.02')
        for i in range(k + 2):
            files['h%d.do' % i] = scen.leaf_do(hold)
        files['top.do'] = scen.node_do(['a'] + ['b%d' % i for i in range(nsh)] + ['h%d' % i for i in range(k + 2)] + leaves[1:], sl())
    else:
        raise ValueError(shape)
    if outcome.startswith('err'):
        # a hard error inside a nested redo-ifchange while a sibling job of the same process is still running
        files['slow.do'] = scen.leaf_do('sleep 0.4')
        if outcome == 'err-cycle':
            files['mid.do'] = scen.TRACE_HDR + 'echo "S $1 $$ $PPID" >&9\nredo-ifchange slow errtop\necho "E $1 $$ 0" >&9\n'
        elif outcome == 'err-tmpdir':
            files['blocked.do/keep'] = 'x'       # the rule is a directory: redo cannot read it (a hard error, not a failing script)
            files['mid.do'] = scen.TRACE_HDR + 'echo "S $1 $$ $PPID" >&9\nredo-ifchange slow blocked\necho "E $1 $$ 0" >&9\n'
        elif outcome == 'err-empty':
            files['mid.do'] = scen.TRACE_HDR + 'echo "S $1 $$ $PPID" >&9\nredo-ifchange slow ""\necho "E $1 $$ 0" >&9\n'
        files['errtop.do'] = (scen.TRACE_HDR + 'echo "S $1 $$ $PPID" >&9\nredo-ifchange top mid\necho "W+ $1 $$" >&9\necho "W- $1 $$" >&9\n'
                              'echo x > $3\necho "E $1 $$ 0" >&9\n')
        return files, 'errtop'
    return files, 'top'


def case(item):
    mode, shape, n, slots, log, outcome, cmd, seed = item
    rnd = random.Random(repr(item))
    files, top = make_graph(shape, n, rnd, outcome)
    pj = scen.Project(files, 'c08')
    anoms = []
    obs = dict(builds=1)
    sets = {}
    sample = dict(mode=mode, shape=shape, leaves=n, slots=slots, log=log, outcome=outcome, cmd=cmd)
    try:
        env = pj.env()
        if not log:
            env['REDO_LOG'] = '0'
        if outcome == 'failk':
            env['REDO_KEEP_GOING'] = '1'
        js = None
        fds = ()
        if mode == 'inh':
            js = HarnessJobserver(slots, cheat=True)
            env.update(js.env())
            fds = js.fds()
            argv = [cmd, top]
        else:
            argv = ['redo', '-j%d' % slots, top]
        try:
            # a quarter of the runs with descheduling injection (redo processes stopped and continued at random), another
            # quarter with long stops aimed at processes that sit idle waiting for a slot: coincidences of token arrival,
            # child exit and timer expiry in one wake-up
            stutter = ('waiters', seed) if seed % 4 == 1 else (seed if seed % 4 == 3 else None)
            sets['descheduling'] = ['none' if stutter is None else ('idle-waiters' if isinstance(stutter, tuple) else 'random')]
            r = run_cmd(argv, pj.top, env=env, timeout=90, pass_fds=fds, stuck_after=8.0, stutter=stutter)
            back = js.drain() if js else None
            cheat_left = js.drain_cheat() if js else None
        finally:
            if js:
                js.close()
        text = r.err + r.out
        if r.status == 'timeout':
            return dict(verdict='inconclusive', why='watchdog without stuck witness', sample=sample)
        if r.status == 'stuck' or r.panicked():
            # belongs to C09; the token questions cannot be asked of a run that did not end
            return dict(verdict='inconclusive', why='run did not end normally (C09 matter): %s' % (common.panic_text(text) or r.status), sample=sample)
        tr = pj.trace_text()
        recs = parse_trace(tr)
        # (a) inherited jobserver: what was taken has been returned
        if js is not None:
            obs['inherited_runs'] = 1
            if back != js.initial:
                anoms.append(dict(key='tokens-not-conserved:inherited:%s:%s' % ('lost' if back < js.initial else 'minted', outcome.split('-')[0]),
                                  what='%s with %d tokens in the pipe ended (exit %s) with %d in it' % (argv, js.initial, r.rc, back)))
            if cheat_left:
                anoms.append(dict(key='cheat-byte-left:%s' % outcome.split('-')[0], what='%d byte(s) left in the cheat pipe after %s (exit %s)' % (cheat_left, argv, r.rc)))
        # (b) own jobserver: redo's self check
        else:
            obs['own_runs'] = 1
            m = re.search(r'on exit: expected (\d+) tokens; found (\S+)', text)
            if m:
                anoms.append(dict(key='tokens-not-conserved:own:%s' % outcome.split('-')[0], what='%s: %s' % (argv, m.group(0))))
        # a nested `redo -jN` started by a script reports its self-check in that script's log
        m = re.search(r'on exit: expected (\d+) tokens; found (\S+)', pj.logs_text())
        if m and not any(a['key'].startswith('tokens-not-conserved:own') for a in anoms):
            anoms.append(dict(key='tokens-not-conserved:nested-own:%s' % outcome.split('-')[0], what='a nested redo -jN inside %s: %s' % (argv, m.group(0))))
        # exit status sanity (so that the outcome classes really are what they claim)
        want_ok = outcome == 'ok'
        if want_ok and r.rc != 0 and not anoms:
            return dict(verdict='inconclusive', why='all-succeeding build exited %s (C09 matter): %s' % (r.rc, text[-200:]), sample=sample)
        if not want_ok and r.rc == 0 and not anoms:
            return dict(verdict='inconclusive', why='build expected to fail exited 0', sample=sample)
        # (c) -j respected.  After an error exit a process legitimately gives back the slots of jobs it leaves
        # behind, so the bound is only demanded for successful and failing builds.
        ov = max_work_overlap(recs)
        bound = slots + (1 if log else 0)
        if shape == 'nestedj1':
            bound = 1 + (1 if log else 0)          # everything that works runs below the inner `redo -j1`
        sets['overlap_seen'] = ['%d/%d%s' % (ov, slots, '+log' if log else '')]
        if shape.startswith('cheatn'):
            pass        # a script that starts its own `redo -jN` adds that jobserver's slots: the outer limit does not apply
        elif not outcome.startswith('err'):
            if ov > bound:
                anoms.append(dict(key='overlap-exceeds-j:%s' % ('log' if log else 'nolog'),
                                  what='%d work sections at once with %d slots%s' % (ov, slots, ' (+1 allowed for the followed job)' if log else '')))
            if ov == slots and shape != 'nestedj1':
                obs['runs_reaching_full_parallelism'] = 1
            if ov == slots + 1:
                obs['runs_using_the_extra_followed_slot'] = 1
        else:
            obs['overlap_above_j_after_error_exit'] = 1 if ov > bound else 0
        # (d) ledger over hook records
        la, st = tokens.ledger(tr, initial=(js.initial if js else None))
        for a in la:
            anoms.append(dict(key=a['key'] + ':' + outcome.split('-')[0], what=a['what']))
        if js is not None and st['hook_records'] and st['final_pipe'] != back and not la:
            # the ledger and the pipe disagree without a localised cause: hook records were lost (inconclusive for (d))
            obs['ledger_pipe_mismatch'] = 1
        for k in ('token_reads', 'tokens_shared', 'releases_absorbed_by_borrowed_slot', 'cheat_takes', 'cheat_eats', 'cheat_writes', 'js_exits', 'reads_while_holding', 'exits_on_cheat'):
            obs[k] = st[k]
        obs['scripts'] = sum(1 for f in recs if f[0] == 'S')
        sets['outcomes'] = [outcome]
        sets['modes'] = ['%s/%s/%s' % (mode, cmd, 'log' if log else 'nolog')]
        if outcome.startswith('err'):
            sets['error_exit_seen'] = [scen.classify_error(text) or ('cyclic' if 'yclic' in text else 'other')]
    finally:
        pj.close()
    res = dict(verdict='violated' if anoms else 'held', nontrivial=obs.get('scripts', 0) >= 3 and slots >= 1,
               shape=common.shash(list(item)), sample=sample, obs=obs, sets=sets)
    if anoms:
        seen = set()
        res['violations'] = [a for a in anoms if not (a['key'] in seen or seen.add(a['key']))]
        res['replay'] = dict(kind='build', item=list(item))
    return res


def gate_case(item):
    """C09's gate enumeration with the token oracles switched on (coincidences of exits and token arrivals)."""
    k, slots, nested, log, fail, plan = item
    steal = False
    if isinstance(log, str):
        steal, log = True, False
    g = gate.GateRun(k, slots, nested=nested, log=log, fail=fail, steal=steal)
    try:
        r = g.run(plan)
    finally:
        g.close()
    anoms = []
    sample = dict(kind='gate', k=k, slots=slots, nested=nested, log=log, steal=steal, fail=sorted(fail), plan=plan, rc=r['rc'])
    delivered = [tuple(s[1]) for s in r['steps']]
    first_unplanned = r['steps'][len(plan)][0] if len(r['steps']) > len(plan) else None
    if r['status'] != 'exit' or r['rc'] == 101 or common.panic_text(r['out']):
        return dict(verdict='inconclusive', why='gate run did not end normally (C09 matter)', sample=sample, avail=None, item=item)
    if r['tokens_back'] != r['expect_tokens']:
        anoms.append(dict(key='tokens-not-conserved:gate:%s' % ('lost' if r['tokens_back'] < r['expect_tokens'] else 'minted'),
                          what='tokens back %d, expected %d under plan %s' % (r['tokens_back'], r['expect_tokens'], plan)))
    la, st = tokens.ledger(r['trace'], initial=0)     # the gate hands tokens out one by one: the pipe starts empty
    for a in la:
        if a['key'].startswith('ledger:process-exits'):
            anoms.append(dict(key=a['key'] + ':gate', what=a['what'] + ' under plan %s' % (plan,)))
    ready = set()
    for l in r['woke']:
        m = re.search(r'ready=\[([^\]]*)\]', l)
        if m:
            ready.add(m.group(1) or '(timeout)')
    res = dict(verdict='violated' if anoms else 'held', nontrivial=len(r['steps']) >= 2,
               shape=common.shash([k, slots, nested, log, steal, sorted(fail), delivered]), sample=sample,
               obs=dict(gate_paths=1, gate_steps=len(r['steps']), token_reads=st['token_reads'], cheat_takes=st['cheat_takes'], js_exits=st['js_exits']),
               sets=dict(ready_sets=sorted(ready)), avail=first_unplanned, item=item)
    if anoms:
        res['violations'] = anoms
        res['replay'] = dict(kind='gate', item=item, steps=r['steps'], out=r['out'][-1500:])
    return res


def gate_layer(col, configs, depth, deadline):
    frontier = [(k, s, n, l, tuple(f), []) for (k, s, n, l, f) in configs]
    level = 0
    while frontier and level <= depth and time.time() < deadline:
        nxt = []
        for r in common.pmap(gate_case, frontier, deadline=deadline):
            col.add(r)
            if r.get('verdict') != 'held':
                continue
            item, avail = r['item'], r['avail']
            if avail and level < depth:
                for sub in gate.subsets(avail):
                    nxt.append((item[0], item[1], item[2], item[3], item[4], list(item[5]) + [sub]))
        frontier = nxt
        level += 1


RULE = ('builds of fan / nested fan / diamond / chain / one-by-one / shared-failing (three groups wait for one slow target that fails) / nested-serial (a script runs `redo -j1` on the leaves while the outer jobserver has slots to spare: at most one of them works at a time) graphs of 6-60 leaves with jittered work sections, (i) under a jobserver '
        'owned by the harness (MAKEFLAGS pipe with N-1 bytes, harness-owned cheat pipe) via redo-ifchange and redo, (ii) as redo -jN; N in '
        '1..8(16); with log capture (follower attached, cheating possible) and with REDO_LOG=0; outcomes: success, failing leaves, failing '
        'leaves with --keep-going, and error exits of a nested redo-ifchange that still has a job running (dependency cycle, a rule that is a directory, '
        'empty target name). Oracles: (a) bytes in the token pipe after the command = bytes before, cheat pipe empty; (b) no '
        '"on exit: expected N tokens" from a self-owned jobserver; (c) maximum nesting of W+/W- work sections in the trace <= N (+1 with a '
        'follower), demanded for success and build failure; (d) per-process ledger over hook records: every redo process leaves the jobserver '
        'holding exactly one real token or one written-back borrowed one, and the running sum of the pipe never goes negative. A third layer '
        're-runs the select()-gate enumeration (exit / token / steal coincidences, with and without cheating) under oracles (a) and (d). '
        'Non-trivial: >=3 scripts executed. Distinct: parameter tuple / delivered gate event sets.')
ASSUME = ['work sections are the script code outside redo-ifchange calls', 'the +1 allowance applies only when a log follower is attached',
          'runs that abort or hang are C09 matters and count as inconclusive here',
          'after an error exit with jobs left behind the -j bound is reported, not demanded (the leaving process must hand back their slots)']


def items_for(tier, rnd):
    quick = tier == 'quick'
    items = []
    shapes = ['fan', 'nested', 'diamond', 'chain', 'split', 'cheat']
    for rep in range(1 if quick else 10):
        for shape in shapes:
            for slots in ((1, 2, 3, 8) if quick else (1, 2, 3, 4, 8, 16)):
                for log in (False, True):
                    for outcome in ('ok', 'fail', 'failk'):
                        n = rnd.choice([6, 12, 24] if quick else [6, 12, 24, 40, 60])
                        mode = rnd.choice(['inh', 'inh', 'own'])
                        cmd = rnd.choice(['redo-ifchange', 'redo']) if mode == 'inh' else 'redo'
                        items.append((mode, shape, n, slots, log, outcome, cmd, rnd.randrange(10 ** 6)))
    for rep in range(1 if quick else 6):
        for nsh in (1, 2, 3):
            for extra in (1, 2):
                for outcome in ('ok', 'fail'):
                    for mode, cmd in (('inh', 'redo-ifchange'), ('own', 'redo')):
                        items.append((mode, 'cheat%d' % nsh, 4, nsh + extra, True, outcome, cmd, rnd.randrange(10 ** 6)))
                        if outcome == 'ok':
                            items.append((mode, 'cheatf%d' % nsh, 4, nsh + extra, True, outcome, cmd, rnd.randrange(10 ** 6)))
                            items.append((mode, 'cheatn%d' % nsh, 4, nsh + extra, True, outcome, cmd, rnd.randrange(10 ** 6)))
    for rep in range(1 if quick else 6):
        for slots in (2, 3, 4):
            for log in (False, True):
                for outcome in ('fail', 'failk'):
                    for mode, cmd in (('inh', 'redo-ifchange'), ('own', 'redo')):
                        items.append((mode, 'sharedfail', 6, slots, log, outcome, cmd, rnd.randrange(10 ** 6)))
    for rep in range(1 if quick else 6):
        for slots in (3, 4, 8):
            for log in (False, True):
                for mode, cmd in (('inh', 'redo-ifchange'), ('own', 'redo')):
                    items.append((mode, 'nestedj1', 6, slots, log, 'ok', cmd, rnd.randrange(10 ** 6)))
    for rep in range(1 if quick else 8):
        for outcome in ('err-cycle', 'err-tmpdir', 'err-empty'):
            for slots in (2, 3, 4):
                for log in (False, True):
                    for mode, cmd in (('inh', 'redo-ifchange'), ('own', 'redo'), ('inh', 'redo')):
                        items.append((mode, rnd.choice(['fan', 'nested']), 6, slots, log, outcome, cmd, rnd.randrange(10 ** 6)))
    return items


def main(tier):
    quick = tier == 'quick'
    rnd = random.Random(common.seed() * 31 + (0 if quick else 7))
    from .. import faults as _f
    col = Collector(PROP, tier, 'exploration', RULE + _f.LAYER_RULE % _f.LAYER_JUDGED[PROP], ASSUME, floor=30)
    t0 = time.time()
    budget = 110 if quick else 1000
    items = items_for(tier, rnd)
    rnd.shuffle(items)
    # builds are themselves parallel; run a few at a time so that their own timing stays meaningful
    for r in common.pmap(case, items, procs=6, deadline=t0 + budget * 0.65):
        col.add(r)
    cfgs = [(2, 2, False, False, ()), (2, 2, False, True, ()), (2, 2, False, 'steal', ())]
    if not quick:
        cfgs += [(2, 3, False, True, ()), (3, 2, False, True, ()), (2, 2, True, True, ()), (2, 2, False, True, (1,)), (3, 3, False, False, ()),
                 (2, 1, False, True, ()), (3, 2, True, False, ()), (3, 2, False, 'steal', ())]
    gate_layer(col, cfgs, depth=(2 if quick else 4), deadline=t0 + budget)
    if not quick:
        from . import miri_layer
        miri_layer.unit_tests(col, PROP, ('jobserver::tests',), time.time() + 400)     # MAKEFLAGS parsing and the timer future, under Miri
    from .. import faults
    fn, fits, cov = faults.layer(PROP, tier, rnd)
    for r in common.pmap(fn, fits, procs=8, deadline=time.time() + (40 if quick else 500)):
        col.add(r)
    rc = col.finish(extra_coverage=cov)
    common.cleanup_scratch()
    return rc


def replay(path):
    import json
    d = json.load(open(path))
    rp = d['replay']
    common.ensure_built()
    if rp['kind'] == 'io-fault':
        from .. import faults
        return faults.replay(PROP, path)
    if rp['kind'] == 'gate':
        it = rp['item']
        r = gate_case((it[0], it[1], it[2], it[3], tuple(it[4]), it[5]))
    else:
        r = case(tuple(rp['item']))
    print(r.get('verdict'), r.get('violations') or r.get('why'))
    common.cleanup_scratch()
    if r.get('verdict') == 'violated':
        print('VIOLATION property=%s replay=%s' % (PROP, path))
        return 1
    return 0
