"""C03 - Checksum cut-off: redo-stamp stops and forwards change exactly."""
from .. import gen, histcheck

PROP = 'C03'


def prof(seed):
    k = seed % 3
    base = dict(p_stamp=0.55, p_head=0.55, p_always=0.15, p_flag=0.3, p_watch=0.05, p_dyn=0.1, top_bias=0.75)
    if k == 0:
        return gen.profile(ntgt=(3, 6), ops=dict(m_stamp=8, edit_i=4, edit_r=3, build=6, force=1, rm=1, repeat=2, m_failfix=3, m_stampflip=3, edit_back=2), **base)
    if k == 1:
        return gen.profile(ntgt=(4, 9), jmax=4, ops=dict(m_stamp=6, edit_i=3, edit_r=3, force=2, rm=2), **base)
    return gen.profile(ntgt=(5, 10), steps=(10, 22), ops=dict(m_stamp=5, edit_i=3, edit_r=3, rm=2, doedit=1, m_failfix=3, m_stampflip=2, edit_back=2), **base)


def stampy(a):
    return 'stamp' in a['key'] or 'checksum' in a['key'] or 'out-of-band' in a['key']


def nontrivial(r):
    rs = r['reasons']
    # a checksummed target was rebuilt at least once after the first build, and some command ran fewer scripts than its closure
    rebuilt = any(x.endswith('/stamp') and not x.startswith('never-built') for x in rs)
    builds = [h for h in r['hist'] if h['op'] == 'build' and h.get('rc') == 0]
    return rebuilt and len(builds) >= 2


CASE = histcheck.HistCase(PROP, prof, {'overbuild', 'underbuild', 'stale'}, nontrivial, keyfilter=stampy)

RULE = ('dedicated generator: 1-5 checksummed (redo-stamp) targets at depth 1-3 below plain/always/checksummed dependents; sources have '
        'a relevant first line and an irrelevant rest, checksummed targets often read only first lines, so edits either keep or '
        'change the checksum; the consumer is usually requested directly after the edit. Violations counted here: over-build / '
        'under-build / stale content of a target that is checksummed or has a checksummed target below it. Non-trivial: a '
        'checksummed target was re-executed after its first build and >=2 successful commands. Distinct: hash of (graph shape, op sequence).')
ASSUME = ['reference model rvlib/model.py (checksummed targets bump their version only when the produced bytes change)',
          'nested checksummed targets: a dependent that cannot be settled after one out-of-band round may run (recorded as may-run)']


def main(tier):
    n, budget = (240, 60) if tier == 'quick' else (6000, 780)
    return histcheck.run(PROP, tier, CASE, histcheck.seeds_for(PROP, tier, n), 'exploration', RULE, ASSUME, budget, floor=20)


def replay(path):
    from ..replay import replay_history
    return replay_history(PROP, path, None)
