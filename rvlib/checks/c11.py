"""C11 - redo never overwrites or deletes files it did not produce."""
import os

from .. import gen, histcheck
from ..histrun import Anomaly, OVERRIDE_RE

PROP = 'C11'


def prof(seed):
    k = seed % 3
    base = dict(p_default=0.6, p_twodot=0.3, p_subdir=0.3, p_flag=0.05, p_opt=0.0, p_watch=0.05, p_phony=0.08, p_multi=0.3, user_symlinks=True)
    ops = dict(uwrite=6, urm=4, build=9, repeat=2, force=2, edit_r=2, rm=1, doedit=1, dorm_last=1, doadd=1, m_failedit=2)
    if k == 0:
        return gen.profile(ntgt=(2, 6), ops=ops, **base)
    if k == 1:
        return gen.profile(ntgt=(3, 8), jmax=4, ops=ops, **base)
    return gen.profile(ntgt=(3, 8), steps=(10, 24), p_stamp=0.4, ops=dict(ops, m_doswap=1), **base)


def hook(hr, step, op, entry, anoms, ctx):
    p = hr.p
    if not hasattr(hr, '_pending_warn'):
        hr._pending_warn = {}
        hr._roles = {}
    if op[0] == 'uwrite' and entry is None:
        n = op[1]
        prev = hr._roles.get(n, 'none')
        hr._roles[n] = 'user'
        if prev == 'redo':
            hr._pending_warn[n] = True        # a generated target was edited by hand: the next direct request must warn
        hr.stats['user_writes'] = hr.stats.get('user_writes', 0) + 1
        hr.stats['role_changes'] = hr.stats.get('role_changes', 0) + (1 if prev != 'user' else 0)
    elif op[0] in ('urm',) and entry is None:
        if hr._roles.get(op[1]) == 'user':
            hr.stats['role_changes'] = hr.stats.get('role_changes', 0) + 1
        hr._roles[op[1]] = 'none'
        hr._pending_warn.pop(op[1], None)
    elif entry is not None and ctx is not None:
        for n in ctx['ran']:
            if ctx['done'].get(n):
                if hr._roles.get(n) != 'redo':
                    hr.stats['role_changes'] = hr.stats.get('role_changes', 0) + 1
                hr._roles[n] = 'redo'
            elif not os.path.lexists(hr.path(n)):
                # a failed build that left no file: redo documents that the name goes back to being a possible source,
                # so a file created by hand afterwards needs no override warning
                hr._roles[n] = 'none'
                hr._pending_warn.pop(n, None)
        for n, why_ in ctx['reasons'].items():
            if (why_ or '').startswith('no-rule:') and ctx['done'].get(n) is False and not os.path.lexists(hr.path(n)):
                # "no rule to redo" and no file: as after any failed build without output, the name is free again
                hr._roles[n] = 'none'
                hr._pending_warn.pop(n, None)
        for n in ctx.get('became_static', ()):
            # its rule is gone and redo has taken the file for a source: a later hand edit is an ordinary source edit
            if hr._roles.get(n) == 'redo':
                hr.stats['role_changes'] = hr.stats.get('role_changes', 0) + 1
            hr._roles[n] = 'user'
            hr._pending_warn.pop(n, None)
        r = hr.last_result
        text = (r.err or '') + (r.out or '')
        hr.stats['override_warnings_seen'] = hr.stats.get('override_warnings_seen', 0) + len(OVERRIDE_RE.findall(text))
        out = []
        for n in list(hr._pending_warn):
            if n in op[1] and n in p.user:
                if entry.get('rc') != 0 and not OVERRIDE_RE.search(text):
                    continue        # the command stopped at an earlier failure and may never have looked at n: judge the next one
                del hr._pending_warn[n]
                if not OVERRIDE_RE.search(text):
                    out.append(Anomaly(cls='warning-absent', key='override-warning-absent', what='%s was edited by hand after redo built it; %s printed no warning' % (n, entry['argv'])))
        # every user-owned file named on the command line must still be there
        for n in op[1]:
            if n in p.user and hr.fingerprint(n) is None:
                out.append(Anomaly(cls='user-file-touched', key='user-file-removed', what='user-owned %s is gone after %s' % (n, entry['argv'])))
        hr.anoms.extend(out)
    return []


def nontrivial(r):
    ops = [h['op'] for h in r['hist']]
    return 'uwrite' in ops and sum(1 for o in ops if o == 'build') >= 2 and r['stats'].get('role_changes', 0) >= 2


def mine(a):
    return not a.get('cont')


def early_abort_case(item):
    """redo gives up on a target before its script starts (the environment is broken: TMPDIR points nowhere, the rule's first line
    is not text); the user then makes the file by hand; later commands - with the cause repaired - must leave that file alone."""
    import re
    from .. import common, scen
    _, cause, rule, later, prior, seed = item
    tname = {'specific': 'T', 'default-here': 'T.gen', 'default-parent': 'sub/T.gen'}[rule]
    dopath = {'specific': 'T.do', 'default-here': 'default.gen.do', 'default-parent': 'default.gen.do'}[rule]
    good = scen.TRACE_HDR + 'echo "S $1 $$ $PPID" >&9\necho generated > "$3"\necho "E $1 $$ 0" >&9\n'
    files = {dopath: good, 'top.do': scen.TRACE_HDR + 'echo "S $1 $$ $PPID" >&9\nredo-ifchange %s\ncat %s > "$3"\necho "E $1 $$ 0" >&9\n' % (tname, tname)}
    pj = scen.Project(files, 'c11e')
    anoms = []
    obs = dict(early_abort_scenarios=1)
    try:
        os.makedirs(os.path.join(pj.top, 'sub'), exist_ok=True)
        tp = os.path.join(pj.top, tname)
        if prior == 'built-then-removed':
            r0, _ = pj.run(['redo-ifchange', tname], verif_log=False)
            if r0.rc != 0 or not os.path.exists(tp):
                return dict(verdict='inconclusive', why='early-abort: could not create the prior state', sample=dict(item=list(item)))
            os.unlink(tp)
        extra = {}
        if cause == 'tmpdir':
            extra['TMPDIR'] = os.path.join(pj.top, 'no-such-tmp-dir')
        else:
            common.write_file(os.path.join(pj.top, dopath), b'\xff\xfe not text\n' + good.encode())
        r1, _ = pj.run(['redo', tname] if seed % 2 else ['redo-ifchange', tname], extra=extra, verif_log=False)
        if r1.rc == 0 or os.path.lexists(tp):
            return dict(verdict='inconclusive', why='early-abort: the broken environment did not stop redo (rc %s)' % r1.rc, sample=dict(item=list(item)))
        obs['aborted_before_script'] = 1 if not re.search(r'^S %s ' % re.escape(tname), pj.trace_text(), re.M) else 0
        # the user makes the file by hand; the cause is repaired
        common.write_file(tp, b'made by hand\n')
        st0 = os.lstat(tp)
        fp0 = (st0.st_ino, st0.st_size, st0.st_mtime_ns, common.read_file(tp))
        if cause != 'tmpdir':
            common.write_file(os.path.join(pj.top, dopath), good)
            os.utime(os.path.join(pj.top, dopath), ns=(10 ** 18, 10 ** 18))
        cmds = {'redo': [['redo', tname]], 'ifchange': [['redo-ifchange', tname]], 'consumer': [['redo-ifchange', 'top']],
                'all': [['redo-ifchange', tname], ['redo', 'top'], ['redo', tname]]}[later]
        nS0 = len(re.findall(r'^S %s ' % re.escape(tname), pj.trace_text(), re.M))
        for argv in cmds:
            r2, _ = pj.run(argv, verif_log=False)
            st1 = os.lstat(tp) if os.path.lexists(tp) else None
            fp1 = None if st1 is None else (st1.st_ino, st1.st_size, st1.st_mtime_ns, common.read_file(tp))
            if fp1 != fp0:
                anoms.append(dict(key='user-file-touched:after-early-abort:%s' % cause,
                                  what='%s (rule %s, %s): the hand-made %s is %r after %s (was %r)' % (cause, rule, prior, tname, fp1 and fp1[3][:30], argv, fp0[3])))
                break
            if r2.rc != 0:
                anoms.append(dict(key='exit:expected-ok:after-early-abort', what='%s exits %s: %s' % (argv, r2.rc, r2.err[-200:])))
                break
        nS1 = len(re.findall(r'^S %s ' % re.escape(tname), pj.trace_text(), re.M))
        if nS1 != nS0:
            anoms.append(dict(key='script-ran-for-user-file:after-early-abort', what='the rule for %s ran although the file is the user\'s' % tname))
        if later in ('consumer', 'all') and not anoms:
            got = common.read_file(os.path.join(pj.top, 'top'))
            if got != b'made by hand\n':
                anoms.append(dict(key='stale:consumer-of-user-file:after-early-abort', what='top is %r' % (got,)))
    finally:
        pj.close()
    res = dict(verdict='violated' if anoms else 'held', nontrivial=True, shape=common.shash(list(item)),
               sample=dict(kind='early-abort', cause=cause, rule=rule, later=later, prior=prior), obs=obs, sets=dict(early_abort_causes=[cause]))
    if anoms:
        res['violations'] = anoms[:3]
        res['replay'] = dict(kind='early-abort', item=list(item))
    return res


def window_case(item):
    """The user makes the file while a redo command is on its way to build it: after redo has decided to build and written its
    start-of-build record, before the script starts (a delay hook holds redo there).  The command in progress must leave the file
    as the user made it (redo notices that something else wrote the target and refuses its own output)."""
    import subprocess
    import time
    from .. import common, scen
    _, out, prior, cmd, seed = item
    body = {'d3': 'echo generated > "$3"', 'stdout': 'echo generated', 'none': 'true'}[out]
    files = {'T.do': scen.TRACE_HDR + 'echo "S $1 $$ $PPID" >&9\n%s\necho "E $1 $$ 0" >&9\n' % body}
    pj = scen.Project(files, 'c11w')
    anoms = []
    obs = dict(window_scenarios=1, files_made_inside_the_window=0)
    tpath = os.path.join(pj.top, 'T')
    try:
        if prior == 'built-then-removed':
            r0, _ = pj.run(['redo-ifchange', 'T'])
            if r0.rc != 0:
                return dict(verdict='inconclusive', why='prior build failed', sample=dict(item=list(item)))
            if os.path.lexists(tpath):
                os.unlink(tpath)
        open(pj.trace, 'w').close()
        env = pj.env(dict(REDO_VERIF_DELAY='before_job_start=900'))
        p = subprocess.Popen([cmd, 'T'], cwd=pj.top, env=env, stdin=subprocess.DEVNULL, stdout=subprocess.PIPE, stderr=subprocess.STDOUT, start_new_session=True)
        t0 = time.time()
        while time.time() - t0 < 20 and b' job_prepared ' not in (common.read_file(pj.trace) or b'') and p.poll() is None:
            time.sleep(0.005)
        if p.poll() is not None or b' job_prepared ' not in (common.read_file(pj.trace) or b''):
            try:
                p.wait(timeout=30)
            except subprocess.TimeoutExpired:
                common.kill_session(p.pid)
            return dict(verdict='inconclusive', why='the command never reached the window', sample=dict(item=list(item)))
        common.write_file(tpath, b'made by hand while redo was starting\n')
        st = os.lstat(tpath)
        fp = (st.st_ino, st.st_size, st.st_mtime_ns, common.read_file(tpath))
        obs['files_made_inside_the_window'] = 1
        try:
            outp = p.communicate(timeout=60)[0].decode('utf-8', 'replace')
        except subprocess.TimeoutExpired:
            common.kill_session(p.pid)
            return dict(verdict='inconclusive', why='watchdog', sample=dict(item=list(item)))
        ran = b'\nS T ' in (b'\n' + (common.read_file(pj.trace) or b''))
        obs['scripts_that_ran_after_the_file_appeared'] = 1 if ran else 0
        try:
            st2 = os.lstat(tpath)
            fp2 = (st2.st_ino, st2.st_size, st2.st_mtime_ns, common.read_file(tpath))
        except OSError:
            fp2 = None
        if fp2 != fp:
            anoms.append(dict(key='user-file-touched:made-before-the-script-started:%s' % out,
                              what='%s T (script output: %s): the file the user made after redo had decided to build (and before the script started) is %s after the command (exit %s): %s'
                                   % (cmd, out, 'gone' if fp2 is None else 'replaced or changed', p.returncode, outp[-200:].replace('\n', ' | '))))
        elif p.returncode == 0 and ran and out != 'none':
            anoms.append(dict(key='exit0-although-output-was-refused', what='%s T exits 0, its script ran, the user file is intact: what happened to the output?' % cmd))
    finally:
        pj.close()
    res = dict(verdict='violated' if anoms else 'held', nontrivial=obs['files_made_inside_the_window'] == 1, shape=common.shash(list(item)),
               sample=dict(kind='made-before-the-script-started', output=out, prior=prior, cmd=cmd), obs=obs, sets=dict(early_abort_causes=['window:' + out]))
    if anoms:
        res['violations'] = anoms
        res['replay'] = dict(kind='window', item=list(item))
    return res


def dirlink_case(item):
    """The user's file at a name that a rule matches is a symbolic link to a directory of theirs: no redo command may replace the
    link or touch the directory."""
    from .. import common, scen
    _, rule, cmd, prior, seed = item
    tname = {'specific': 'T', 'default-here': 'T.gen', 'default-parent': 'sub/T.gen'}[rule]
    dopath = {'specific': 'T.do', 'default-here': 'default.gen.do', 'default-parent': 'default.gen.do'}[rule]
    good = scen.TRACE_HDR + 'echo "S $1 $$ $PPID" >&9\necho generated > "$3"\necho "E $1 $$ 0" >&9\n'
    pj = scen.Project({dopath: good, 'sub/keep': 'x\n'}, 'c11d')
    anoms = []
    obs = dict(user_symlink_to_directory_scenarios=1, commands=0)
    tpath = os.path.join(pj.top, tname)
    try:
        if prior == 'built-then-removed':
            r0, _ = pj.run(['redo-ifchange', tname])
            obs['commands'] += 1
            if r0.rc != 0:
                return dict(verdict='inconclusive', why='prior build failed', sample=dict(item=list(item)))
            os.unlink(tpath)
        udir = os.path.join(os.path.dirname(tpath), 'users-dir')
        os.makedirs(udir)
        common.write_file(os.path.join(udir, 'inside'), b'kept by the user\n')
        os.symlink('users-dir', tpath)
        fp = (os.lstat(tpath).st_ino, os.readlink(tpath))
        open(pj.trace, 'w').close()
        for c in ([cmd] if cmd != 'both' else ['redo-ifchange', 'redo']):
            r, _ = pj.run([c, tname])
            obs['commands'] += 1
            for a in scen.crash_anoms(r, '', 'c11'):
                anoms.append(dict(key='c11-' + a['key'], what=a['what']))
            now = (os.lstat(tpath).st_ino, os.readlink(tpath)) if os.path.islink(tpath) else None
            if now != fp:
                anoms.append(dict(key='user-file-touched:symlink-to-a-directory:%s' % rule,
                                  what='%s %s: the user had made %s a symbolic link to a directory; after the command it is %s (exit %s): %s'
                                       % (c, tname, tname, 'no link any more' if now is None else 'another link', r.rc, (r.err + r.out)[-200:].replace('\n', ' | '))))
                break
            if common.read_file(os.path.join(udir, 'inside')) != b'kept by the user\n':
                anoms.append(dict(key='user-file-touched:directory-behind-the-symlink:%s' % rule, what='%s %s changed the directory the link points to' % (c, tname)))
                break
        if b'\nS ' in (b'\n' + (common.read_file(pj.trace) or b'')) and not anoms:
            anoms.append(dict(key='script-ran-for-user-file:symlink-to-a-directory', what='the rule ran for a name that the user owns'))
    finally:
        pj.close()
    res = dict(verdict='violated' if anoms else 'held', nontrivial=True, shape=common.shash(list(item)),
               sample=dict(kind='user-symlink-to-a-directory', rule=rule, cmd=cmd, prior=prior), obs=obs, sets=dict(early_abort_causes=['dirlink:' + rule]))
    if anoms:
        res['violations'] = anoms[:3]
        res['replay'] = dict(kind='dirlink', item=list(item))
    return res


class Dispatch:
    def __init__(self, hist):
        self.hist = hist

    def __call__(self, item, **kw):
        if isinstance(item, (tuple, list)) and item and item[0] == 'early-abort':
            return early_abort_case(tuple(item))
        if isinstance(item, (tuple, list)) and item and item[0] == 'window':
            return window_case(tuple(item))
        if isinstance(item, (tuple, list)) and item and item[0] == 'dirlink':
            return dirlink_case(tuple(item))
        return self.hist(item, **kw)


CASE = histcheck.HistCase(PROP, prof, {'user-file-touched', 'overbuild', 'underbuild', 'stale', 'exit', 'warning-absent', 'multi'}, nontrivial, hook=hook, keyfilter=mine)

RULE = ('histories over programs whose target names are matched by specific rules, default.<ext>.do in the same directory and in a parent '
        'directory; ops: build (-j1/-j4), forced redo, user creates a file at a target name, edits a generated target in place, replaces '
        'it by rename (new inode), removes it again; a rebuild that fails and leaves the old file, followed by a hand edit and the repair of the rule (`m_failedit`); dependents above the contested files. Oracles: (inode, size, mtime, bytes) of every '
        'user-owned file unchanged by every command; the script of a user-owned name never runs (trace); dependents see the user\'s bytes '
        '(content oracle); after the user removes the file the next build produces it again; a hand-edited generated target named on '
        'the command line draws the "you modified it" warning. Early-abort layer: redo gives up on a target before its script starts (TMPDIR points nowhere / the rule\'s first line is not text), '
        'the user makes the file by hand, the cause is repaired: later redo / redo-ifchange / consumer builds leave the file (inode, size, mtime, bytes) alone, the rule does not run, the consumer sees the user\'s bytes. Directory-link layer: the file of the user is a symbolic link to a directory of theirs (specific rule, default rule here / in the parent; never built or built and removed before): redo and redo-ifchange leave the link and the directory alone and do not run the rule. Window layer: the user makes the file after redo has written its start-of-build record and before the script starts (delay hook before_job_start): the command in progress leaves the file (inode, size, mtime, bytes) as it is. Non-trivial: >=1 user write, >=2 builds, >=2 ownership changes. '
        'Distinct: (graph shape, op sequence).')
ASSUME = ['window layer: only the command in progress is judged (afterwards redo cannot tell a file the user made during a build from one its own script wrote into $1, and treats both as a failed build of its own)', 'harness edits always change mtime (and the size or inode)', 'ownership automaton none/redo/user of rvlib/model.py']


def main(tier):
    n, budget = (240, 70) if tier == 'quick' else (5000, 780)
    extra = []
    for rep in range(1 if tier == 'quick' else 8):
        for cause in ('tmpdir', 'not-text'):
            for rule in ('specific', 'default-here', 'default-parent'):
                for later in (('all', 'consumer') if tier == 'quick' else ('redo', 'ifchange', 'consumer', 'all')):
                    for prior in ('never-built', 'built-then-removed'):
                        extra.append(('early-abort', cause, rule, later, prior, rep))
    for rep in range(1 if tier == 'quick' else 6):
        for out in ('d3', 'stdout', 'none'):
            for prior in ('never-built', 'built-then-removed'):
                for cmd in ('redo', 'redo-ifchange'):
                    if out == 'none' and prior == 'built-then-removed' and cmd == 'redo-ifchange':
                        continue        # a target without output that was built is up to date: nothing is started
                    extra.append(('window', out, prior, cmd, rep))
    for rep in range(1 if tier == 'quick' else 4):
        for rule in ('specific', 'default-here', 'default-parent'):
            for cmd in ('redo', 'redo-ifchange', 'both'):
                for prior in ('never-built', 'built-then-removed'):
                    extra.append(('dirlink', rule, cmd, prior, rep))
    import random
    from .. import common, faults
    common.ensure_built()
    fn, its, cov = faults.layer(PROP, tier, random.Random(common.seed()))
    return histcheck.run(PROP, tier, Dispatch(CASE), extra + histcheck.seeds_for(PROP, tier, n), 'exploration', RULE + faults.LAYER_RULE % faults.LAYER_JUDGED[PROP], ASSUME, budget, floor=20,
                         layers=[(fn, its, cov, 30 if tier == 'quick' else 300)])


def replay(path):
    import json
    d = json.load(open(path))
    if d['replay'].get('kind') == 'io-fault':
        from .. import faults
        return faults.replay(PROP, path)
    if d['replay'].get('kind') == 'dirlink':
        from .. import common
        common.ensure_built()
        r = dirlink_case(tuple(d['replay']['item']))
        print(r.get('verdict'), r.get('violations') or r.get('why'))
        common.cleanup_scratch()
        if r.get('verdict') == 'violated':
            print('VIOLATION property=%s replay=%s' % (PROP, path))
            return 1
        return 0
    if d['replay'].get('kind') == 'window':
        from .. import common
        common.ensure_built()
        r = window_case(tuple(d['replay']['item']))
        print(r.get('verdict'), r.get('violations') or r.get('why'))
        common.cleanup_scratch()
        if r.get('verdict') == 'violated':
            print('VIOLATION property=%s replay=%s' % (PROP, path))
            return 1
        return 0
    if d['replay'].get('kind') == 'early-abort':
        from .. import common
        common.ensure_built()
        r = early_abort_case(tuple(d['replay']['item']))
        print(r.get('verdict'), r.get('violations') or r.get('why'))
        common.cleanup_scratch()
        if r.get('verdict') == 'violated':
            print('VIOLATION property=%s replay=%s' % (PROP, path))
            return 1
        return 0
    from ..replay import replay_history
    return replay_history(PROP, path)
