"""C11 - redo never overwrites or deletes files it did not produce."""
import os

from .. import gen, histcheck
from ..histrun import Anomaly, OVERRIDE_RE

PROP = 'C11'


def prof(seed):
    k = seed % 3
    base = dict(p_default=0.6, p_twodot=0.3, p_subdir=0.3, p_flag=0.05, p_opt=0.0, p_watch=0.05, p_phony=0.08, p_multi=0.3, user_symlinks=True)
    ops = dict(uwrite=6, urm=4, build=9, repeat=2, force=2, edit_r=2, rm=1, doedit=1, dorm_last=1, doadd=1)
    if k == 0:
        return gen.profile(ntgt=(2, 6), ops=ops, **base)
    if k == 1:
        return gen.profile(ntgt=(3, 8), jmax=4, ops=ops, **base)
    return gen.profile(ntgt=(3, 8), steps=(10, 24), p_stamp=0.4, ops=dict(ops, m_doswap=1), **base)


def hook(hr, step, op, entry, anoms, ctx):
    p = hr.p
    if not hasattr(hr, '_pending_warn'):
        hr._pending_warn = {}
        hr._roles = {}
    if op[0] == 'uwrite' and entry is None:
        n = op[1]
        prev = hr._roles.get(n, 'none')
        hr._roles[n] = 'user'
        if prev == 'redo':
            hr._pending_warn[n] = True        # a generated target was edited by hand: the next direct request must warn
        hr.stats['user_writes'] = hr.stats.get('user_writes', 0) + 1
        hr.stats['role_changes'] = hr.stats.get('role_changes', 0) + (1 if prev != 'user' else 0)
    elif op[0] in ('urm',) and entry is None:
        if hr._roles.get(op[1]) == 'user':
            hr.stats['role_changes'] = hr.stats.get('role_changes', 0) + 1
        hr._roles[op[1]] = 'none'
        hr._pending_warn.pop(op[1], None)
    elif entry is not None and ctx is not None:
        for n in ctx['ran']:
            if ctx['done'].get(n):
                if hr._roles.get(n) != 'redo':
                    hr.stats['role_changes'] = hr.stats.get('role_changes', 0) + 1
                hr._roles[n] = 'redo'
            elif not os.path.lexists(hr.path(n)):
                # a failed build that left no file: redo documents that the name goes back to being a possible source,
                # so a file created by hand afterwards needs no override warning
                hr._roles[n] = 'none'
                hr._pending_warn.pop(n, None)
        for n, why_ in ctx['reasons'].items():
            if (why_ or '').startswith('no-rule:') and ctx['done'].get(n) is False and not os.path.lexists(hr.path(n)):
                # "no rule to redo" and no file: as after any failed build without output, the name is free again
                hr._roles[n] = 'none'
                hr._pending_warn.pop(n, None)
        for n in ctx.get('became_static', ()):
            # its rule is gone and redo has taken the file for a source: a later hand edit is an ordinary source edit
            if hr._roles.get(n) == 'redo':
                hr.stats['role_changes'] = hr.stats.get('role_changes', 0) + 1
            hr._roles[n] = 'user'
            hr._pending_warn.pop(n, None)
        r = hr.last_result
        text = (r.err or '') + (r.out or '')
        hr.stats['override_warnings_seen'] = hr.stats.get('override_warnings_seen', 0) + len(OVERRIDE_RE.findall(text))
        out = []
        for n in list(hr._pending_warn):
            if n in op[1] and n in p.user:
                if entry.get('rc') != 0 and not OVERRIDE_RE.search(text):
                    continue        # the command stopped at an earlier failure and may never have looked at n: judge the next one
                del hr._pending_warn[n]
                if not OVERRIDE_RE.search(text):
                    out.append(Anomaly(cls='warning-absent', key='override-warning-absent', what='%s was edited by hand after redo built it; %s printed no warning' % (n, entry['argv'])))
        # every user-owned file named on the command line must still be there
        for n in op[1]:
            if n in p.user and hr.fingerprint(n) is None:
                out.append(Anomaly(cls='user-file-touched', key='user-file-removed', what='user-owned %s is gone after %s' % (n, entry['argv'])))
        hr.anoms.extend(out)
    return []


def nontrivial(r):
    ops = [h['op'] for h in r['hist']]
    return 'uwrite' in ops and sum(1 for o in ops if o == 'build') >= 2 and r['stats'].get('role_changes', 0) >= 2


def mine(a):
    return not a.get('cont')


CASE = histcheck.HistCase(PROP, prof, {'user-file-touched', 'overbuild', 'underbuild', 'stale', 'exit', 'warning-absent', 'multi'}, nontrivial, hook=hook, keyfilter=mine)

RULE = ('histories over programs whose target names are matched by specific rules, default.<ext>.do in the same directory and in a parent '
        'directory; ops: build (-j1/-j4), forced redo, user creates a file at a target name, edits a generated target in place, replaces '
        'it by rename (new inode), removes it again; dependents above the contested files. Oracles: (inode, size, mtime, bytes) of every '
        'user-owned file unchanged by every command; the script of a user-owned name never runs (trace); dependents see the user\'s bytes '
        '(content oracle); after the user removes the file the next build produces it again; a hand-edited generated target named on '
        'the command line draws the "you modified it" warning. Non-trivial: >=1 user write, >=2 builds, >=2 ownership changes. '
        'Distinct: (graph shape, op sequence).')
ASSUME = ['harness edits always change mtime (and the size or inode)', 'ownership automaton none/redo/user of rvlib/model.py']


def main(tier):
    n, budget = (240, 70) if tier == 'quick' else (5000, 780)
    return histcheck.run(PROP, tier, CASE, histcheck.seeds_for(PROP, tier, n), 'exploration', RULE, ASSUME, budget, floor=20)


def replay(path):
    from ..replay import replay_history
    return replay_history(PROP, path)
