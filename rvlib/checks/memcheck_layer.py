"""valgrind memcheck over the direct-call harness (the compiled code, complementing Miri's interpreter): the same
calls as the direct layers, a few thousand inputs per function, any memcheck report is a violation candidate."""
import random
import shutil

from .. import common


def run(col, prop, modes, deadline):
    if not shutil.which('valgrind'):
        col.add(dict(verdict='inconclusive', why='valgrind not installed'))
        return
    rnd = random.Random(common.seed())
    pieces = ['a', 'b.c', '.', '..', '/', '//', ' ', 'ü', 'x.tar.gz', '.h', 'dir']
    paths = []
    for _ in range(3000):
        paths.append(('/' if rnd.random() < 0.6 else '') + ''.join(rnd.choice(pieces) + rnd.choice(['/', '/', '']) for _ in range(rnd.randint(1, 6))))
    total = 0
    for mode in modes:
        if mode == 'normpath':
            rows = [[p.encode()] for p in paths]
        elif mode == 'dofiles':
            import posixpath
            good = [posixpath.normpath('/' + p.strip('/')) for p in paths if p.strip('/.')]
            rows = [[g.encode()] for g in good if posixpath.basename(g) not in ('', '.', '..') and g != '/'][:1500]
        elif mode == 'redopath':
            rows = [[p.encode()] for p in paths] + [[b'\xff\xfe' + p.encode()] for p in paths[:200]]
        elif mode == 'meta':
            rows = [[rnd.choice(['do', 'done', 'unchanged', 'waiting']), rnd.randrange(1, 99999), repr(round(rnd.random() * 2e9, 4)),
                     (rnd.choice(['t', '@@ x', 'a:b', '0 name', 'ü']) + p).encode()] for p in paths[:2000]]
        else:
            continue
        out, rc, err = common.native_call(mode, rows, timeout=600, memcheck=True)
        sample = dict(kind='memcheck-direct', mode=mode, calls=len(rows))
        if out is None and rc == 99:
            col.add(dict(verdict='violated', nontrivial=True, shape='memcheck:' + mode, sample=sample,
                         violations=[dict(key='memcheck-direct:%s' % mode, what=err[-800:])], replay=dict(kind='memcheck', mode=mode)))
        elif out is None:
            col.add(dict(verdict='inconclusive', why='harness under valgrind failed (rc %s): %s' % (rc, err[-200:]), sample=sample))
        else:
            total += len(rows)
            col.add(dict(verdict='held', nontrivial=True, shape='memcheck:' + mode, sample=sample, obs=dict(memcheck_direct_calls=len(rows)),
                         sets=dict(memcheck_modes=[mode])))
    col.extra['memcheck_direct'] = dict(calls=total, modes=list(modes))
