"""C05 - Failures propagate, are remembered as dirty, and are retried next run."""
from .. import gen, histcheck
from ..histrun import Anomaly

PROP = 'C05'


def prof(seed):
    k = seed % 4
    base = dict(p_flag=0.6, p_opt=0.12, p_split=0.25, p_stamp=0.15, p_watch=0.05, p_always=0.08, p_multi=0.45)
    if k == 0:
        return gen.profile(ops=dict(m_failfix=6, flag=5, build=8, repeat=3, force=1, m_hfail=4, hflag=1), **base)
    if k == 1:
        return gen.profile(jmax=4, p_keep=0.5, ops=dict(m_failfix=6, flag=5, build=8, repeat=3), **base)
    if k == 2:
        return gen.profile(ntgt=(5, 11), p_keep=0.5, ops=dict(m_failfix=5, flag=5, build=8, repeat=2, edit_r=2, m_hfail=3, force=2), **base)
    return gen.profile(jmax=4, ntgt=(5, 11), ops=dict(m_failfix=5, flag=5, build=8, repeat=2, rm=1), **base)


def hook(hr, step, op, entry, anoms, ctx):
    """Extra monitors over the unified trace of the command just run."""
    if entry is None or ctx is None:
        return []
    out = []
    recs = hr.last_recs
    p = hr.p
    failed = set()          # targets whose script has exited non-zero so far in this run
    notrun_failed = set(ctx['notrun_failed'])
    # (1) a nested redo-ifchange that requested a failed target must not exit 0
    for f in recs:
        if f[0] == 'E' and len(f) >= 4 and f[3] != '0':
            failed.add(f[1])
        elif f[0] == 'RC' and len(f) == 4 and f[1] in p.targets:
            n, rc = f[1], f[3]
            deps = set(p.curdeps(n))
            if rc == '0' and deps & failed:
                out.append(Anomaly(cls='swallowed', key='swallowed-failure:nested-redo-ifchange',
                                   what='redo-ifchange inside %s exited 0 although %s failed in this run' % (n, sorted(deps & failed))))
    # (2) trace only: a script that was started after a target in its (strict) dependency closure had failed in this run cannot exit 0
    def strict_closure(n, acc):
        for d in p.curdeps(n):
            if d in p.targets and d not in p.user and d not in acc:
                acc.add(d)
                strict_closure(d, acc)
        return acc
    failed_so_far = set()
    failed_at_start = {}
    forced_cmd = bool(entry.get('argv')) and entry['argv'][0] == 'redo'
    for f in recs:
        if f[0] == 'S' and len(f) >= 3 and f[1] in p.targets:
            failed_at_start[(f[1], f[2])] = set(failed_so_far)
        elif f[0] == 'E' and len(f) >= 4 and f[1] in p.targets:
            if f[3] != '0':
                failed_so_far.add(f[1])
            else:
                bad = strict_closure(f[1], set()) & failed_at_start.get((f[1], f[2]), set())
                if bad and ctx['done'].get(f[1]) is True and forced_cmd:
                    # The reference model, which follows redo's "checked in this run" memo, agrees that the script succeeds: an
                    # intermediate target had been found clean earlier in this run, before `redo` force-rebuilt the (then failing)
                    # target below it, and is not looked at again.  Known finding (same root as the C02 one), keyed.
                    out.append(Anomaly(cls='swallowed', key='succeeded-above-a-failed-forced-rebuild:intermediate-checked-earlier-in-the-run', cont=True,
                                       what='%s exited 0 after %s had failed in this run: an intermediate had been checked before the forced rebuild' % (f[1], sorted(bad))))
                elif bad:
                    out.append(Anomaly(cls='swallowed', key='succeeded-above-a-target-that-failed-in-this-run',
                                       what='%s was started after %s had failed in this run and exited 0 although it depends on it' % (f[1], sorted(bad))))
    # (6) per process: no job is started after a failure is known (without --keep-going)
    known = {}
    keep = {}
    for f in recs:
        if f[0] != 'H' or len(f) < 3:
            continue
        pid, kind = f[1], f[2]
        if kind == 'consider':
            keep[pid] = 'keep_going=true' in ' '.join(f[3:])
        elif kind == 'fail_known':
            known[pid] = ' '.join(f[3:])
        elif kind == 'job_start' and pid in known and not keep.get(pid, False):
            out.append(Anomaly(cls='started-after-failure', key='started-after-known-failure',
                               what='process %s started %s after it had recorded the failure %s' % (pid, ' '.join(f[3:]), known[pid])))
    hr.stats['hook_records'] = hr.stats.get('hook_records', 0) + sum(1 for f in recs if f[0] == 'H')
    hr.stats['fail_known_records'] = hr.stats.get('fail_known_records', 0) + len(known)
    hr.anoms.extend(out)
    return []


def nontrivial(r):
    builds = [h for h in r['hist'] if h['op'] == 'build' and h.get('status') == 'exit']
    failing = [i for i, h in enumerate(builds) if h.get('rc') not in (0, None)]
    ok_after = any(h.get('rc') == 0 and h.get('ran') for h in builds[(failing[0] + 1 if failing else 0):]) if failing else False
    return bool(failing) and ok_after


def mine(a):
    # the two keyed C02 findings (forced rebuild after a check in the same run; extra out-of-band edges) are
    # reported under C02/C03, not here
    return not a.get('cont') or str(a.get('key', '')).startswith('succeeded-above-a-failed-forced-rebuild:')


def lock_fail_case(item):
    """`redo L F` / `redo -jN F L` while another invocation is building L (so L is met locked) and F fails: once F's failure is
    known the command must not go on to build L (no --keep-going); with --keep-going it must."""
    import re
    import time
    from .. import common, scen
    _, order, j, keep, seed = item
    files = {'L.do': scen.leaf_do('sleep 0.9'), 'F.do': scen.TRACE_HDR + 'echo "S $1 $$ $PPID" >&9\nsleep 0.2\necho "E $1 $$ 4" >&9\nexit 4\n',
             'G.do': scen.leaf_do('sleep 0.1')}
    pj = scen.Project(files, 'c05l')
    anoms = []
    try:
        argv = ['redo'] + (['-j%d' % j] if j > 1 else []) + (['-k'] if keep else []) + list(order)
        res = pj.run_many([dict(argv=['redo', 'L'], extra={'RV_INV': '0'}), dict(argv=argv, delay=0.25, extra={'RV_INV': '1'})], timeout=60)
        if any(r is None or r.status != 'exit' for r in res):
            return dict(verdict='inconclusive', why='lock/fail scenario did not end', sample=dict(item=list(item)))
        tr = pj.trace_text()
        nL = len(re.findall(r'^S L ', tr, re.M))
        waited = ' lock_wait ' in tr or 'locked' in (res[1].err + res[1].out) or nL >= 1
        if res[1].rc == 0:
            anoms.append(dict(key='exit:expected-failure:rc=0:locked-sibling', what='%s exits 0 although F failed' % argv))
        if not keep and nL != 1:
            anoms.append(dict(key='started-after-known-failure:locked-target', what='%s: L.do ran %d times in total: the command built L after F had failed' % (argv, nL)))
        if keep and nL != 2:
            anoms.append(dict(key='keep-going-skipped-target:locked-target', what='%s: L.do ran %d times in total, expected 2 (forced rebuild after the lock was free)' % (argv, nL)))
        known = {}
        for l in tr.split('\n'):
            f = l.split(' ')
            if f[0] == 'H' and len(f) >= 3:
                if f[2] == 'fail_known':
                    known[f[1]] = l
                elif f[2] == 'job_start' and f[1] in known and not keep:
                    anoms.append(dict(key='started-after-known-failure', what='process %s started %s after %s' % (f[1], ' '.join(f[3:]), known[f[1]])))
    finally:
        pj.close()
    res_ = dict(verdict='violated' if anoms else 'held', nontrivial=True, shape=common.shash(list(item)),
                sample=dict(kind='failure-with-locked-sibling', argv=argv), obs=dict(lock_fail_scenarios=1), sets=dict(rebuild_reasons=['locked-sibling']))
    if anoms:
        seen = set()
        res_['violations'] = [a for a in anoms if not (a['key'] in seen or seen.add(a['key']))]
        res_['replay'] = dict(kind='lockfail', item=list(item))
    return res_


def nested_tree(seed):
    """Random tree of scripts that request their children with a nested `redo`, `redo -k` or `redo-ifchange`."""
    import random
    rnd = random.Random('c05-nested-%s' % (seed,))
    nodes = {}          # name -> dict(kind='leaf'|'inner', fail=bool, call=..., kids=[...])
    cnt = [0]

    def mk(depth):
        name = 'n%d' % cnt[0]
        cnt[0] += 1
        if depth >= 3 or (depth > 0 and rnd.random() < 0.55) or cnt[0] > 14:
            nodes[name] = dict(kind='leaf', fail=rnd.random() < 0.3)
        else:
            nodes[name] = dict(kind='inner', call=rnd.choice(['redo', 'redo', 'redo -k', 'redo-ifchange']), kids=[])
            for _ in range(rnd.randint(2, 4)):
                nodes[name]['kids'].append(mk(depth + 1))
        return name
    tops = [mk(0) for _ in range(rnd.choice([1, 1, 2]))]
    if not any(n['kind'] == 'leaf' and n['fail'] for n in nodes.values()):
        leaves = [k for k, n in nodes.items() if n['kind'] == 'leaf']
        nodes[rnd.choice(leaves)]['fail'] = True
    j = rnd.choice([1, 1, 1, 2, 3])
    keep = rnd.random() < 0.6
    return nodes, tops, j, keep


def nested_expect(nodes, tops, j, keep):
    """-> (must, may, fails): scripts that have to run / may run, and whether the command has to fail."""
    must, may = set(), set()

    def ev(name, keep_env, certain):
        (must if certain else may).add(name)
        may.add(name)
        n = nodes[name]
        if n['kind'] == 'leaf':
            return n['fail']
        k = keep_env or n['call'] == 'redo -k'
        failed = False
        sure = certain
        for c in n['kids']:
            if failed and not k:
                if j == 1:
                    break
                sure = False          # started before the failure was known, or not at all: schedule-dependent
            if ev(c, k, sure):
                failed = True
        return failed
    failed = False
    sure = True
    for t in tops:
        if failed and not keep:
            if j == 1:
                break
            sure = False
        if ev(t, keep, sure):
            failed = True
    return must, may, failed


def nested_case(item):
    """--keep-going is a property of the whole run: a nested `redo` inside a script inherits it (and a nested `redo -k` turns it
    on for its own subtree).  Every requested target that does not depend on a failed one is built; without it nothing is started
    after the first known failure."""
    import re
    from .. import common, scen
    seed = item[1]
    nodes, tops, j, keep = nested_tree(seed)
    files = {}
    for name, n in nodes.items():
        if n['kind'] == 'leaf':
            files[name + '.do'] = (scen.TRACE_HDR + 'echo "S $1 $$ $PPID" >&9\nsleep 0.0%d\n' % (seed % 7) +
                                   ('echo "E $1 $$ 5" >&9\nexit 5\n' if n['fail'] else 'echo "leaf $1" > "$3"\necho "E $1 $$ 0" >&9\n'))
        else:
            files[name + '.do'] = (scen.TRACE_HDR + 'echo "S $1 $$ $PPID" >&9\nrc=0\n%s %s || rc=$?\necho "RC $1 $$ $rc" >&9\n'
                                   '[ $rc = 0 ] || { echo "E $1 $$ $rc" >&9; exit $rc; }\necho "node $1" > "$3"\necho "E $1 $$ 0" >&9\n'
                                   % (n['call'], ' '.join(n['kids'])))
    must, may, fails = nested_expect(nodes, tops, j, keep)
    pj = scen.Project(files, 'c05n')
    anoms = []
    argv = ['redo'] + (['-j%d' % j] if j > 1 else []) + (['-k'] if keep else []) + tops
    try:
        r, _ = pj.run(argv, timeout=90)
        if r.status != 'exit':
            return dict(verdict='inconclusive', why='nested-redo scenario did not end (%s)' % r.status, sample=dict(item=list(item)))
        tr = pj.trace_text()
        ran = {}
        for m_ in re.finditer(r'^S (\S+) ', tr, re.M):
            ran[m_.group(1)] = ran.get(m_.group(1), 0) + 1
        for n in sorted(must - set(ran)):
            anoms.append(dict(key='keep-going-skipped-target:nested-redo' if (keep or any(x['kind'] == 'inner' and x['call'] == 'redo -k' for x in nodes.values())) else 'underbuild:nested-redo',
                              what='%s: %s was never started although it does not depend on a failed target (ran: %s)' % (argv, n, sorted(ran))))
        for n in sorted(set(ran) - may):
            anoms.append(dict(key='started-after-known-failure:nested-redo', what='%s: %s was started after a failure was known to the process that requested it (ran: %s)' % (argv, n, sorted(ran))))
        for n, c in ran.items():
            if c > 1:
                anoms.append(dict(key='multi:nested-redo', what='%s ran %d times' % (n, c)))
        if (r.rc != 0) != fails:
            anoms.append(dict(key='exit:%s:rc=%s:nested-redo' % ('expected-failure' if fails else 'expected-ok', r.rc), what='%s exits %s' % (argv, r.rc)))
        for m_ in re.finditer(r'^RC (\S+) \d+ (\d+)', tr, re.M):
            n = nodes.get(m_.group(1))
            if n and m_.group(2) == '0':
                bad = [c for c in n['kids'] if re.search(r'^E %s \d+ [1-9]' % re.escape(c), tr, re.M)]
                if bad:
                    anoms.append(dict(key='swallowed-failure:nested-redo', what='%s inside %s exited 0 although %s failed' % (n['call'], m_.group(1), bad)))
    finally:
        pj.close()
    shape = common.shash([sorted((k, v.get('call'), v.get('fail'), tuple(v.get('kids', ()))) for k, v in nodes.items()), tops, j, keep])
    res_ = dict(verdict='violated' if anoms else 'held', nontrivial=len(may) >= 4 and fails, shape=shape,
                sample=dict(kind='nested-redo-tree', argv=argv, scripts=len(nodes), must=len(must), may=len(may)),
                obs=dict(nested_redo_trees=1, nested_redo_scripts_run=sum(ran.values()) if not anoms or ran else 0),
                sets=dict(rebuild_reasons=['nested-redo:' + ('keep' if keep else 'nokeep') + (':j%d' % j)]))
    if anoms:
        seen = set()
        res_['violations'] = [a for a in anoms if not (a['key'] in seen or seen.add(a['key']))]
        res_['replay'] = dict(kind='nested', item=list(item))
    return res_


def sharedfail_case(item):
    """One run, two scripts that force-build the same target T (`redo T`), the second asking while T's script is still running;
    T's script then fails.  The waiter gets T's lock after the failure is recorded: T is not executed a second time in the run,
    and both requesters (and the top-level command) fail."""
    from .. import common, scen
    _, cmd2, j, pause, keep, seed = item
    req = scen.TRACE_HDR + 'echo "S $1 $$ $PPID" >&9\n%(pre)s\necho "Q $1 $$" >&9\nrc=0\n%(cmd)s T || rc=$?\necho "RC $1 $$ $rc" >&9\n[ $rc = 0 ] || { echo "E $1 $$ $rc" >&9; exit $rc; }\necho ok > "$3"\necho "E $1 $$ 0" >&9\n'
    files = {
        'T.do': scen.TRACE_HDR + 'echo "S $1 $$ $PPID" >&9\nsleep 0.5\necho "E $1 $$ 1" >&9\nexit 1\n',
        'a.do': req % dict(pre='true', cmd='redo'),
        'b.do': req % dict(pre='sleep %s' % pause, cmd=cmd2),
        'all.do': scen.TRACE_HDR + 'echo "S $1 $$ $PPID" >&9\nredo-ifchange a b\necho "E $1 $$ 0" >&9\n',
    }
    pj = scen.Project(files, 'c05s')
    anoms = []
    obs = dict(shared_failing_target_rounds=1, second_request_begun_while_the_script_ran=0)
    try:
        r, _ = pj.run(['redo', '-j%d' % j] + (['-k'] if keep else []) + ['all'], timeout=60)
        if r.status != 'exit' or r.panicked():
            return dict(verdict='inconclusive', why='did not end normally: %s' % r.status, sample=dict(item=list(item)))
        lines = [l.split(' ') for l in pj.trace_text().split('\n') if l]
        pos_q_b = next((i for i, f in enumerate(lines) if f[0] == 'Q' and f[1] == 'b'), None)
        pos_s_t = next((i for i, f in enumerate(lines) if f[0] == 'S' and f[1] == 'T'), None)
        pos_e_t = next((i for i, f in enumerate(lines) if f[0] == 'E' and f[1] == 'T'), None)
        runs_t = sum(1 for f in lines if f[0] == 'S' and f[1] == 'T')
        contended = pos_q_b is not None and pos_s_t is not None and pos_e_t is not None and pos_s_t < pos_q_b < pos_e_t
        if contended:
            obs['second_request_begun_while_the_script_ran'] = 1
            if runs_t != 1:
                anoms.append(dict(key='failed-target-executed-again-in-the-same-run:waiter-after-lock', what='T (fails) was executed %d times in one run: b asked for it with `%s T` while its script ran' % (runs_t, cmd2)))
            rcs = {f[1]: f[3] for f in lines if f[0] == 'RC'}
            for who in ('a', 'b'):
                if rcs.get(who) == '0':
                    anoms.append(dict(key='swallowed-failure:shared-failing-target', what='%s: request for the failing T returned 0' % who))
            if r.rc == 0:
                anoms.append(dict(key='exit:expected-failure:rc=0:shared-failing-target', what='redo all exits 0'))
        elif pos_q_b is not None and pos_e_t is not None and pos_q_b > pos_e_t:
            # the second request begins after T's script has failed and the failure is recorded
            obs['second_request_begun_after_the_failure'] = 1
            if runs_t != 1:
                anoms.append(dict(key='failed-target-executed-again-in-the-same-run:%s' % ('forced-request-after-the-failure' if cmd2 == 'redo' else 'redo-ifchange-after-the-failure'),
                                  what='T failed in this run; b then asked for it with `%s T` and T was executed again (%d executions in one run)' % (cmd2, runs_t)))
            if r.rc == 0:
                anoms.append(dict(key='exit:expected-failure:rc=0:shared-failing-target', what='redo all exits 0'))
    finally:
        pj.close()
    res_ = dict(verdict='violated' if anoms else 'held', nontrivial=bool(obs['second_request_begun_while_the_script_ran'] or obs.get('second_request_begun_after_the_failure')), shape=common.shash(list(item)),
                sample=dict(kind='shared-failing-target', second=cmd2, j=j, pause=pause, keep=keep), obs=obs, sets=dict(rebuild_reasons=['sharedfail:%s:j%d%s' % (cmd2, j, ':keep' if keep else '')]))
    if anoms:
        res_['violations'] = anoms[:3]
        res_['replay'] = dict(kind='sharedfail', item=list(item))
    return res_


class Dispatch:
    def __init__(self, hist):
        self.hist = hist

    def __call__(self, item, **kw):
        if isinstance(item, (tuple, list)) and item and item[0] == 'lockfail':
            return lock_fail_case(tuple(item))
        if isinstance(item, (tuple, list)) and item and item[0] == 'nested':
            return nested_case(tuple(item))
        if isinstance(item, (tuple, list)) and item and item[0] == 'sharedfail':
            return sharedfail_case(tuple(item))
        return self.hist(item, **kw)


CASE = histcheck.HistCase(PROP, prof, {'exit', 'multi', 'underbuild', 'overbuild', 'stale', 'swallowed', 'started-after-failure'}, nontrivial, hook=hook, keyfilter=mine)

RULE = ('programs with 1-4 nodes whose failure is switched by a declared flag source, at varying depth and list position, shared '
        'between dependents, with strict, sequential (one redo-ifchange per dependency) and tolerant (|| true) consumers; '
        'histories switch failures on, build (-j1/-j4, with and without --keep-going, several targets per command), rebuild, '
        'repair and rebuild. Oracles: exit status of every top-level command vs model; exit status of nested redo-ifchange '
        '(RC records) vs failures already recorded in the trace; executed multiset vs model (failed target once per run, '
        'retried next run, dependents re-executed); contents of everything the model says was brought up to date, also after a '
        'failing --keep-going command; hook monitor: no job_start after fail_known in one process without --keep-going. '
        'Nested-redo layer: random trees of scripts that request their children with a nested `redo`, `redo -k` or redo-ifchange, under a '
        'top-level redo with/without -k at -j1..3: started scripts vs must/may sets (keep-going is inherited through the run and switched on by a nested -k; '
        'without it nothing is started after the first failure known to the requesting process), exit status, nested exit statuses. '
        'Contention layer: `redo L F` / `redo -jN F L` (with and without -k) while another invocation holds L: L must not be built after F failed, and must be with -k. '
        'Shared-failing-target layer: two scripts of one run force-build (`redo T`, or `redo T` and `redo-ifchange T`) the same target, the second asking while T runs; T fails: executed once, both requests and the command fail (-j2/-j3, with and without -k); and the second request begun after the failure (with -k): redo-ifchange is refused, a forced `redo T` executes T again (keyed known finding). '
        'Non-trivial: a failing command followed later by a successful command that ran scripts. Distinct: (graph shape, op sequence).')
ASSUME = ['which siblings were already started when a failure becomes known is schedule-dependent: guided by the observation (must <= observed <= may)',
          'a successful tolerant consumer of a failed dependency is dirty and is re-executed on a later request in the same run']


def main(tier):
    n, budget = (240, 70) if tier == 'quick' else (5000, 780)
    extra = []
    for rep in range(1 if tier == 'quick' else 6):
        for order, j in ((('L', 'F'), 1), (('F', 'L'), 2), (('L', 'G', 'F'), 1), (('G', 'F', 'L'), 3)):
            for keep in (False, True):
                extra.append(('lockfail', order, j, keep, rep))
    for rep in range(1 if tier == 'quick' else 5):
        for cmd2 in ('redo', 'redo-ifchange'):
            for j in (2, 3):
                for keep in (False, True):
                    extra.append(('sharedfail', cmd2, j, '0.15' if rep % 2 == 0 else '0.3', keep, rep))
                    if keep or cmd2 == 'redo-ifchange':
                        # (after the failure: only reached when the command goes on, i.e. with -k - or b itself tolerant enough to get there)
                        extra.append(('sharedfail', cmd2, j, '1.1', True, rep))
    import os
    base = int(os.environ.get('VERIF_SEED', '1')) * 100000
    extra += [('nested', base + i) for i in range(40 if tier == 'quick' else 1500)]
    return histcheck.run(PROP, tier, Dispatch(CASE), extra + histcheck.seeds_for(PROP, tier, n), 'exploration', RULE, ASSUME, budget, floor=20)


def replay(path):
    import json
    d = json.load(open(path))
    if d['replay'].get('kind') == 'sharedfail':
        from .. import common
        common.ensure_built()
        r = sharedfail_case(tuple(d['replay']['item']))
        from ..framework import replay_result
        return replay_result(PROP, r, path)
    if d['replay'].get('kind') == 'nested':
        from .. import common
        common.ensure_built()
        r = nested_case(tuple(d['replay']['item']))
        from ..framework import replay_result
        return replay_result(PROP, r, path)
    if d['replay'].get('kind') == 'lockfail':
        from .. import common
        common.ensure_built()
        r = lock_fail_case(tuple(tuple(x) if isinstance(x, list) else x for x in d['replay']['item']))
        from ..framework import replay_result
        return replay_result(PROP, r, path)
    from ..replay import replay_history
    return replay_history(PROP, path)
