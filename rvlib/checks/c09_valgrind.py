"""valgrind memcheck over whole build trees (supplementary monitor attached to C09, thorough tier).

Every process of a small build runs under memcheck (--trace-children=yes; skipping /bin/sh would also stop
tracing the redo processes the scripts start).  An error reported in a process whose command is a redo
program is a violation candidate ("no crash" half of C09: invalid reads/writes, use of uninitialised values
in the scheduler, the state layer or bundled SQLite as driven by redo).  Leak checking is off: redo processes
exit without tearing their heaps down, by design.
"""
import glob
import os
import re
import shutil
import subprocess
import time

from .. import common, scen


def scenarios():
    chain = {'top.do': scen.node_do(['mid']), 'mid.do': scen.node_do(['src']), 'src': 's\n'}
    fan = {'default.leaf.do': scen.leaf_do('sleep 0.01'), 'all.do': scen.node_do(['a.leaf', 'b.leaf', 'c.leaf', 'd.leaf'])}
    fail = {'top.do': scen.node_do(['ok.leaf', 'bad']), 'default.leaf.do': scen.leaf_do(), 'bad.do': 'exit 3\n'}
    stamp = {'top.do': scen.node_do(['st']), 'st.do': 'redo-ifchange src\ncut -c1 src > $3\nredo-stamp < $3\n', 'src': 'a1\n'}
    return [
        ('serial-chain', chain, [['redo-ifchange', 'top'], ['redo-ifchange', 'top']], None),
        ('parallel-fan', fan, [['redo', '-j3', 'all']], None),
        ('failing', fail, [['redo-ifchange', 'top']], None),
        ('checksummed-rebuild', stamp, [['redo-ifchange', 'top'], ('edit', 'src', 'a2\n'), ['redo-ifchange', 'top'], ('edit', 'src', 'b3\n'), ['redo-ifchange', 'top']], None),
        ('queries-and-log', chain, [['redo', 'top'], ['redo-ood'], ['redo-targets'], ['redo-sources'], ['redo-log', '-r', '--no-pretty', 'top'], ['redo-whichdo', 'top']], None),
    ]


def one(item):
    name, files, steps, _ = item
    if not shutil.which('valgrind'):
        return dict(verdict='inconclusive', why='valgrind not installed')
    pj = scen.Project(files, 'vg')
    logd = os.path.join(pj.top, '.vg')
    os.makedirs(logd)
    anoms = []
    nproc = 0
    redo_procs = 0
    t0 = time.time()
    try:
        bindir = common.ensure_built()
        env = pj.env(verif_log=False)
        clock = 5
        for st in steps:
            if isinstance(st, tuple):
                p = os.path.join(pj.top, st[1])
                common.write_file(p, st[2])
                clock += 5
                os.utime(p, ns=(int(time.time() * 1e9) + clock * 10 ** 9,) * 2)
                continue
            argv = ['valgrind', '--trace-children=yes', '--leak-check=no', '--error-exitcode=0', '-q', '--log-file=%s/vg.%%p.log' % logd,
                    os.path.join(bindir, st[0])] + st[1:]
            try:
                subprocess.run(argv, cwd=pj.top, env=env, stdin=subprocess.DEVNULL, stdout=subprocess.PIPE, stderr=subprocess.PIPE, timeout=600)
            except subprocess.TimeoutExpired:
                return dict(verdict='inconclusive', why='valgrind run timed out (%s)' % name, sample=dict(kind='valgrind', scenario=name))
        for lf in glob.glob(os.path.join(logd, 'vg.*.log')):
            nproc += 1
            txt = open(lf, errors='replace').read()
            if not txt.strip():
                continue
            # -q: only errors are logged; find which program this process ran
            pid = re.search(r'vg\.(\d+)\.log', lf).group(1)
            m = re.search(r'==%s== (Invalid|Conditional jump|Use of uninit|Syscall param|Mismatched|Source and destination|Process terminating)[^\n]*' % pid, txt)
            if not m:
                continue
            frames = re.findall(r'==%s==\s+(?:at|by) 0x[0-9A-F]+: ([^\n]*)' % pid, txt)[:8]
            inredo = any('redo' in f or 'sqlite3' in f for f in frames)
            if inredo:
                anoms.append(dict(key='memcheck:%s' % m.group(1).split()[0].lower(), what='%s: %s | %s' % (name, m.group(0)[:160], ' <- '.join(frames)[:500])))
        # count redo processes from the trace-free side: every log file is one process; commands are not logged under -q
    finally:
        pj.close()
    res = dict(verdict='violated' if anoms else 'held', nontrivial=nproc >= 2, shape='valgrind:' + name,
               sample=dict(kind='valgrind-memcheck', scenario=name, processes=nproc, wall_s=round(time.time() - t0, 1)),
               obs=dict(memcheck_processes=nproc, memcheck_scenarios=1), sets=dict(stress_kinds=['valgrind:' + name]))
    if anoms:
        res['violations'] = anoms[:3]
        res['replay'] = dict(kind='valgrind', scenario=name)
    return res


def selftest():
    """A planted heap overrun in a scratch C program must show up through the same command line and parser."""
    d = common.new_dir('vgself')
    try:
        src = os.path.join(d, 'redo-selftest.c')
        open(src, 'w').write('#include <stdlib.h>\nint main(void){volatile char*p=malloc(3);return p[3];}\n')
        exe = os.path.join(d, 'redo-selftest')
        if subprocess.run(['gcc', '-g', '-O0', '-o', exe, src], capture_output=True).returncode != 0:
            return False
        subprocess.run(['valgrind', '--trace-children=yes', '--leak-check=no', '--error-exitcode=0', '-q', '--log-file=%s/vg.%%p.log' % d, exe],
                       capture_output=True, timeout=120)
        txt = ''.join(open(f, errors='replace').read() for f in glob.glob(os.path.join(d, 'vg.*.log')))
        return bool(re.search(r'== Invalid read', txt))
    except (OSError, subprocess.TimeoutExpired):
        return False
    finally:
        common.rmtree(d)


def run(col, deadline):
    if not shutil.which('valgrind'):
        col.add(dict(verdict='inconclusive', why='valgrind not installed'))
        return
    if not selftest():
        col.add(dict(verdict='inconclusive', why='memcheck self-test (planted heap overrun) was not reported: layer skipped'))
        return
    col.extra['memcheck_selftest'] = 'planted heap overrun reported'
    items = scenarios()
    for r in common.pmap(one, items, procs=len(items), deadline=deadline):
        col.add(r)
