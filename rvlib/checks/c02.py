"""C02 - Rebuild set is exactly the set of targets whose inputs changed."""
from .. import gen, histcheck

PROP = 'C02'


def prof(seed):
    k = seed % 4
    if k == 0:
        return gen.profile(p_dyn=0.6, ops=dict(m_dropdep=4, m_dropforgot=3, repeat=4, sel=3))
    if k == 1:
        return gen.profile(p_default=0.7, p_twodot=0.5, p_subdir=0.4, ops=dict(m_doswap=5, doadd=2, dorm=2, dorm_last=2, doedit=2, repeat=3))
    if k == 2:
        return gen.profile(p_watch=0.5, p_always=0.25, ops=dict(watch=5, repeat=4, rm=3, m_failfix=2))
    return gen.profile(ntgt=(5, 12), steps=(10, 24), ops=dict(repeat=4, m_dropdep=1, m_dropforgot=1, m_doswap=1, m_failfix=1, m_stamp=1, m_stampflip=2, edit_back=1), p_stamp=0.35)


def nontrivial(r):
    builds = [h for h in r['hist'] if h['op'] == 'build' and h.get('status') == 'exit']
    none = any(not h.get('ran') for h in builds[1:])
    some = any(h.get('ran') and h.get('expect') is not None for h in builds[1:])
    return len(builds) >= 3 and none and some


CASE = histcheck.HistCase(PROP, prof, {'overbuild', 'underbuild', 'multi'}, nontrivial)

RULE = ('same program generator as C01; histories biased towards immediate repetition of a command (must run nothing unless '
        'redo-always), narrowing a dependency selector and then editing exactly the dropped dependency (also when the narrowed target is rebuilt from a record that redo had turned into "not a target": file removed, failed without output, deleted override), creating/removing '
        'higher-priority .do candidates, ifcreate paths appearing/disappearing, remove-and-rebuild, failure then retry. '
        'Oracle: per command, multiset of script executions (S records of the unified trace) == set predicted by the '
        'reference model (property\'s iff-list; in failing/parallel commands the choice of already-started siblings is '
        'guided by the observation, i.e. must <= observed <= may). Non-trivial: >=3 commands, one that ran nothing and '
        'one incremental. Distinct: hash of (graph shape, op sequence with per-command run counts).')
ASSUME = ['a content-identical rebuild of a non-checksummed dependency counts as a change (redo\'s rule)',
          'a checksummed dependency whose file was removed by hand may either be settled through its checksum or make its dependents run',
          'reference model rvlib/model.py']


def main(tier):
    n, budget = (240, 60) if tier == 'quick' else (6000, 780)
    return histcheck.run(PROP, tier, CASE, histcheck.seeds_for(PROP, tier, n), 'exploration', RULE, ASSUME, budget, floor=20)


def replay(path):
    from ..replay import replay_history
    return replay_history(PROP, path, None)
