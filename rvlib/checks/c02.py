"""C02 - Rebuild set is exactly the set of targets whose inputs changed."""
from .. import gen, histcheck

PROP = 'C02'


def prof(seed):
    k = seed % 4
    if k == 0:
        return gen.profile(p_dyn=0.6, ops=dict(m_dropdep=4, m_dropforgot=3, repeat=4, sel=3))
    if k == 1:
        return gen.profile(p_default=0.7, p_twodot=0.5, p_subdir=0.4, ops=dict(m_doswap=5, doadd=2, dorm=2, dorm_last=2, doedit=2, repeat=3))
    if k == 2:
        return gen.profile(p_watch=0.5, p_always=0.25, ops=dict(watch=5, repeat=4, rm=3, m_failfix=2))
    return gen.profile(ntgt=(5, 12), steps=(10, 24), ops=dict(repeat=4, m_dropdep=1, m_dropforgot=1, m_doswap=1, m_failfix=1, m_stamp=1, m_stampflip=2, edit_back=1), p_stamp=0.35)


def nontrivial(r):
    builds = [h for h in r['hist'] if h['op'] == 'build' and h.get('status') == 'exit']
    none = any(not h.get('ran') for h in builds[1:])
    some = any(h.get('ran') and h.get('expect') is not None for h in builds[1:])
    return len(builds) >= 3 and none and some


CASE = histcheck.HistCase(PROP, prof, {'overbuild', 'underbuild', 'multi'}, nontrivial)

RULE = ('same program generator as C01; histories biased towards immediate repetition of a command (must run nothing unless '
        'redo-always), narrowing a dependency selector and then editing exactly the dropped dependency (also when the narrowed target is rebuilt from a record that redo had turned into "not a target": file removed, failed without output, deleted override), creating/removing '
        'higher-priority .do candidates, ifcreate paths appearing/disappearing, remove-and-rebuild, failure then retry. '
        'Oracle: per command, multiset of script executions (S records of the unified trace) == set predicted by the '
        'reference model (property\'s iff-list; in failing/parallel commands the choice of already-started siblings is '
        'guided by the observation, i.e. must <= observed <= may). Non-trivial: >=3 commands, one that ran nothing and '
        'one incremental. Distinct: hash of (graph shape, op sequence with per-command run counts). '
        'Retry layer: a script that fails 1-2 times for an undeclared (transient) reason and is retried with a forced `redo T` by its requester until it '
        'succeeds in the same run (stdout / $3 / redo-stamp outputs, requested directly or from below another target); the two following '
        '`redo-ifchange` with nothing changed must not run T: its last build succeeded.')
ASSUME = ['a content-identical rebuild of a non-checksummed dependency counts as a change (redo\'s rule)',
          'a checksummed dependency whose file was removed by hand may either be settled through its checksum or make its dependents run',
          'reference model rvlib/model.py']


RETRY_T = {
    'stdout': 'echo "gen $n"',
    'dollar3': 'echo "gen $n" > "$3"',
    'stamp': 'echo "gen same" > "$3"\nredo-stamp < "$3"',
}


def retry_case(item):
    """A failure that is retried with success inside the same run: T's script fails `fails` times (a transient error: its cause is
    not a declared input) and the requester retries with a forced `redo T` until it succeeds, then declares T with redo-ifchange.
    T's last build succeeded, so by the iff-list nothing gives the next `redo-ifchange` a reason to run it (or anything above it)."""
    import os
    from .. import scen, common
    _, out, fails, where, seed = item
    t_do = (scen.TRACE_HDR + 'echo "S $1 $$ $PPID" >&9\nn=$(( $(cat "$1.cnt" 2>/dev/null || echo 0) + 1 ))\necho $n > "$1.cnt"\n'
            'if [ $n -le %d ]; then echo "E $1 $$ 1" >&9; exit 1; fi\n%s\necho "E $1 $$ 0" >&9\n' % (fails, RETRY_T[out]))
    retry = ' || '.join(['redo T'] * (fails + 1))
    files = {'T.do': t_do,
             'all.do': scen.TRACE_HDR + 'echo "S $1 $$ $PPID" >&9\n%s\nredo-ifchange T\necho "RC $1 $$ $?" >&9\ncat T > "$3"\necho "E $1 $$ 0" >&9\n' % retry,
             'top.do': scen.TRACE_HDR + 'echo "S $1 $$ $PPID" >&9\nredo-ifchange all\ncat all > "$3"\necho "E $1 $$ 0" >&9\n'}
    pj = scen.Project(files, 'c02r')
    anoms = []
    obs = dict(retry_rounds=1, retried_with_success=0, follow_up_commands=0)
    try:
        goal = 'top' if where == 'below' else 'all'
        r1, _ = pj.run(['redo-ifchange', goal])
        if r1.status != 'exit' or r1.panicked():
            return dict(verdict='inconclusive', why='first command did not end normally: %s' % r1.status, sample=dict(item=list(item)))
        ex1 = [l.split(' ')[1] for l in pj.trace_text().split('\n') if l.startswith('S ')]
        if ex1.count('T') != fails + 1 or not os.path.exists(os.path.join(pj.top, 'T')):
            return dict(verdict='inconclusive', why='the retry did not take place as planned: %s' % ex1, sample=dict(item=list(item)))
        obs['retried_with_success'] = 1
        obs['first_command_rc_%s' % ('zero' if r1.rc == 0 else 'nonzero')] = 1
        if r1.rc != 0:
            # (the retried target is still taken for failed: the requester's redo-ifchange T is refused.  Counted; what this check
            #  judges is the next run.)
            obs['declaring_the_rebuilt_target_refused_in_the_same_run'] = 1
        for k in range(2):
            open(pj.trace, 'w').close()
            r2, _ = pj.run(['redo-ifchange', goal])
            if r2.status != 'exit' or r2.panicked():
                return dict(verdict='inconclusive', why='follow-up did not end normally', sample=dict(item=list(item)))
            obs['follow_up_commands'] += 1
            ex2 = [l.split(' ')[1] for l in pj.trace_text().split('\n') if l.startswith('S ')]
            if 'T' in ex2:
                anoms.append(dict(key='overbuild:retried-with-success-in-the-same-run:run-%d-after' % (k + 1),
                                  what='T failed %d time(s) and was then built with success in the same run (%s); the next `redo-ifchange %s` (nothing changed) ran %s'
                                       % (fails, retry, goal, ex2)))
                break
            if r1.rc == 0 and ex2:
                anoms.append(dict(key='overbuild:above-a-target-retried-with-success', what='nothing changed, yet %s ran' % ex2))
                break
    finally:
        pj.close()
    res = dict(verdict='violated' if anoms else 'held', nontrivial=obs['retried_with_success'] > 0 and obs['follow_up_commands'] > 0, shape=common.shash(list(item)),
               sample=dict(kind='retry', out=out, fails=fails, where=where), obs=obs, sets=dict(retry_shapes=['%s/%d/%s' % (out, fails, where)]))
    if anoms:
        res['violations'] = anoms[:2]
        res['replay'] = dict(kind='retry', item=list(item))
    return res


class Dispatch:
    def __init__(self, hist):
        self.hist = hist

    def __call__(self, item, **kw):
        if isinstance(item, (tuple, list)) and item and item[0] == 'retry':
            return retry_case(tuple(item))
        return self.hist(item, **kw)


def main(tier):
    n, budget = (240, 60) if tier == 'quick' else (6000, 780)
    extra = [('retry', out, fails, where, rep) for rep in range(1 if tier == 'quick' else 4)
             for out in ('stdout', 'dollar3', 'stamp') for fails in (1, 2) for where in ('direct', 'below')]
    return histcheck.run(PROP, tier, Dispatch(CASE), extra + histcheck.seeds_for(PROP, tier, n), 'exploration', RULE, ASSUME, budget, floor=20)


def replay(path):
    import json
    d = json.load(open(path))
    if d['replay'].get('kind') == 'retry':
        from .. import common
        common.ensure_built()
        r = retry_case(tuple(d['replay']['item']))
        from ..framework import replay_result
        return replay_result(PROP, r, path)
    from ..replay import replay_history
    return replay_history(PROP, path, None)
