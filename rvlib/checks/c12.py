"""C12 - Dependency cycles end in an error, never in a hang."""
import itertools
import os
import random
import re
import time

from .. import common, scen
from ..framework import Collector

PROP = 'C12'

NODE = scen.TRACE_HDR + '''echo "S $1 $$ $PPID" >&9
set +e
redo-ifchange %(deps)s
rc=$?
set -e
echo "RC $1 $$ $rc" >&9
%(after)s
%(extra)s
echo "x $1" > "$3"
%(stamp)s
echo "E $1 $$ 0" >&9
'''


def build_files(L, P, nb, na, tolerant, slow, late=None):
    files = {'default.leaf.do': scen.leaf_do('sleep 0.02' if slow else '')}
    after = 'true' if tolerant else '[ $rc = 0 ] || { echo "E $1 $$ $rc" >&9; exit $rc; }'
    cyc = ['c%d' % i for i in range(L)]
    for i, n in enumerate(cyc):
        nxt = cyc[(i + 1) % L]
        deps = ['b%d_%d.leaf' % (i, k) for k in range(nb)] + [nxt] + ['a%d_%d.leaf' % (i, k) for k in range(na)]
        extra, stamp = 'true', 'true'
        if late and i == L - 1:
            if 'always' in late:
                extra = 'redo-always'
            if 'stamp' in late:
                stamp = 'redo-stamp < "$3"'
        files[n + '.do'] = NODE % dict(deps=' '.join(deps), after=after, extra=extra, stamp=stamp)
    pre = ['p%d' % i for i in range(P)]
    for i, n in enumerate(pre):
        nxt = pre[i + 1] if i + 1 < P else None
        files[n + '.do'] = NODE % dict(deps='%s', after=after, extra='true', stamp='true')   # filled by entry below
    return files, cyc, pre


def cycle_case(item):
    L, P, nb, na, entries, j, tolerant, rerun, slow = item[:9]
    late = item[9] if len(item) > 9 else None
    keep = bool(item[10]) if len(item) > 10 else False
    files, cyc, pre = build_files(L, P, nb, na, tolerant, slow, late)
    # prefix chain p0 -> p1 -> ... -> entry node(s)
    ent = [cyc[e % L] for e in entries]
    for i, n in enumerate(pre):
        nxt = [pre[i + 1]] if i + 1 < P else ent
        files[n + '.do'] = files[n + '.do'] % ' '.join(nxt)
    top = [pre[0]] if pre else ent
    closing = None
    if late:
        # first an acyclic version (the last node does not point back yet), built once; the edit that
        # closes the cycle comes afterwards, so the cycle is met through recorded state
        last = cyc[-1] + '.do'
        closing = files[last]
        files[last] = closing.replace(' ' + cyc[0] + ' ', ' ').replace(' ' + cyc[0] + '\n', ' nocycle.leaf\n')
    fill = 0
    if late and '@' in late:
        late, fill = late.split('@')[0], int(late.split('@')[1])
    pj = scen.Project(files, 'c12')
    if late and fill:
        # history that shuffles file ids: the entry node of the cycle is built first (its whole acyclic chain gets low ids), then `fill` unrelated targets,
        # and only then the rest of the graph - so members of the cycle have smaller ids than their ancestors
        ra, _ = pj.run(['redo-ifchange', ent[0]], timeout=40)
        rb, _ = pj.run(['redo-ifchange'] + ['f%d.leaf' % i for i in range(fill)], timeout=60)
        if ra.rc != 0 or rb.rc != 0:
            pj.close()
            return dict(verdict='inconclusive', why='history builds failed', sample=dict(item=list(item)))
    if late:
        r0, _ = pj.run((['redo', '-j%d' % j] if j > 1 else ['redo-ifchange']) + top, timeout=40)
        if r0.rc != 0 or r0.status != 'exit':
            pj.close()
            return dict(verdict='inconclusive', why='acyclic first build failed: %s' % r0.err[-200:], sample=dict(item=list(item)))
        common.write_file(os.path.join(pj.top, last), closing)
        os.utime(os.path.join(pj.top, last), ns=(2 * 10 ** 18, 2 * 10 ** 18))
    multi = len(set(ent)) > 1
    anoms = []
    obs = dict(cycle_runs=0)
    sets = {}
    try:
        for attempt in range(2 if rerun else 1):
            open(pj.trace, 'w').close()
            kx = dict(REDO_KEEP_GOING='1') if keep else None
            if j > 1:
                r, _ = pj.run(['redo'] + (['-k'] if keep else []) + ['-j%d' % j] + top, timeout=40, stuck_after=4.0)
            else:
                r, _ = pj.run(['redo-ifchange'] + top, timeout=40, stuck_after=4.0, extra=kx)
            obs['cycle_runs'] += 1
            obs['cycle_runs_keep_going'] = obs.get('cycle_runs_keep_going', 0) + (1 if keep else 0)
            tr = pj.trace_text()
            rcs = re.findall(r'^RC \S+ \d+ (\d+)', tr, re.M)
            where = ('multi-entry' if multi else 'single-entry') + (':cycle-closed-after-a-build:%s' % late if late else '') + (':keep-going' if keep and not multi else '')
            phase = 'rerun' if attempt else 'first'
            if r.status == 'timeout':
                return dict(verdict='inconclusive', why='watchdog without stuck witness: %s' % (r.witness,), sample=dict(item=list(item)))
            if r.status == 'stuck':
                anoms.append(dict(key='cycle-hang:%s' % where, what='L=%d P=%d entries=%s -j%d %s: stuck, witness %s' % (L, P, ent, j, phase, r.witness)))
                break
            for a in scen.crash_anoms(r, pj.logs_text(), 'cycle'):
                if a['cls'] == 'crash':
                    anoms.append(dict(key='cycle-%s:%s' % (a['key'], 'self-dependency' if L == 1 else 'L>1'), what=a['what']))
            if anoms:
                break
            if r.rc == 0 and not tolerant:
                anoms.append(dict(key='cycle-exit-0:%s' % where, what='L=%d P=%d entries=%s -j%d %s: exit 0' % (L, P, ent, j, phase)))
            text = r.err + r.out + pj.logs_text()
            ident = ('208' in rcs) or r.rc == 208 or re.search(r'[Cc]yclic', text)
            if not ident:
                anoms.append(dict(key='cycle-not-identified:%s:%s' % (where, phase),
                                  what='no exit status 208 / cyclic-dependency message anywhere; top rc=%s, nested rcs=%s, tail=%s' % (r.rc, rcs, text[-300:].replace('\n', ' | '))))
            sets.setdefault('detector_statuses', set()).update(rcs)
            sets.setdefault('top_statuses', set()).add(str(r.rc))
    finally:
        pj.close()
    res = dict(verdict='violated' if anoms else 'held', nontrivial=True, shape=common.shash(list(item)),
               sample=dict(L=L, prefix=P, siblings_before=nb, siblings_after=na, entries=ent, j=j, tolerant=tolerant, rerun=rerun, late=late),
               obs=obs, sets={k: sorted(v) for k, v in sets.items()})
    if anoms:
        res['violations'] = anoms
        res['replay'] = dict(kind='cycle', item=list(item))
    return res


def sibling_case(item):
    """A cycle a -> b -> ... -> a entered at one node, next to an acyclic sibling s that also needs the member a (and waits for it),
    while the member b asks for `s <next member>` in one list: the request for s cannot be served (s is locked and waits for a), the
    next member closes the cycle and reports it.  The requester must give up then; waiting for s would never end
    (s waits for a, a for b, b for this request)."""
    _, L, bsleep, ssleep, j, keep = item
    cyc = ['a', 'b'] + ['m%d' % i for i in range(L - 2)]
    hdr = scen.TRACE_HDR + 'echo "S $1 $$ $PPID" >&9\n'
    body = 'rc=0\nredo-ifchange %s || rc=$?\necho "RC $1 $$ $rc" >&9\n[ $rc = 0 ] || { echo "E $1 $$ $rc" >&9; exit $rc; }\necho "$1" > "$3"\necho "E $1 $$ 0" >&9\n'
    files = {'all.do': hdr + body % 'a s', 's.do': hdr + 'sleep %s\n' % ssleep + body % 'a'}
    for i, n in enumerate(cyc):
        nxt = cyc[(i + 1) % L]
        files[n + '.do'] = hdr + (('sleep %s\n' % bsleep + body % ('s ' + nxt)) if n == 'b' else body % nxt)
    pj = scen.Project(files, 'c12s')
    anoms = []
    obs = dict(cycle_runs=1, sibling_cycle_runs=1)
    sets = {}
    try:
        r, _ = pj.run(['redo'] + (['-k'] if keep else []) + ['-j%d' % j, 'all'], timeout=40, stuck_after=4.0)
        tr = pj.trace_text()
        rcs = re.findall(r'^RC \S+ \d+ (\d+)', tr, re.M)
        if r.status == 'timeout':
            return dict(verdict='inconclusive', why='watchdog without stuck witness: %s' % (r.witness,), sample=dict(item=list(item)))
        # the configuration this layer is about: s started (and so holds its lock) before b made its request
        lines = [l.split(' ') for l in tr.split('\n') if l]
        started = [f[1] for f in lines if f[0] == 'S']
        obs['sibling_started_before_the_member_asked'] = int('s' in started and 'b' in started)
        if r.status == 'stuck':
            anoms.append(dict(key='cycle-hang:sibling-waiting-for-a-member%s' % (':keep-going' if keep else ''), what='L=%d -j%d%s: stuck, witness %s' % (L, j, ' -k' if keep else '', r.witness)))
        else:
            for a in scen.crash_anoms(r, pj.logs_text(), 'cycle'):
                if a['cls'] == 'crash':
                    anoms.append(dict(key='cycle-%s:sibling' % a['key'], what=a['what']))
            if not anoms and r.rc == 0:
                anoms.append(dict(key='cycle-exit-0:sibling-waiting-for-a-member', what='L=%d -j%d: exit 0' % (L, j)))
            text = r.err + r.out + pj.logs_text()
            if not anoms and not (('208' in rcs) or r.rc == 208 or re.search(r'[Cc]yclic', text)):
                anoms.append(dict(key='cycle-not-identified:sibling-waiting-for-a-member', what='no 208 / cyclic-dependency message; rc=%s nested=%s' % (r.rc, rcs)))
        sets['top_statuses'] = [str(r.rc)]
    finally:
        pj.close()
    res = dict(verdict='violated' if anoms else 'held', nontrivial=True, shape=common.shash(list(item)),
               sample=dict(kind='sibling', L=L, bsleep=bsleep, ssleep=ssleep, j=j, keep=keep), obs=obs, sets=sets)
    if anoms:
        res['violations'] = anoms
        res['replay'] = dict(kind='sibling', item=list(item))
    return res


def any_case(item):
    if item and item[0] == 'sibling':
        return sibling_case(item)
    return cycle_case(item)


def items(tier):
    out = []
    quick = tier == 'quick'
    for L in ((3,) if quick else (2, 3, 4, 5)):
        for bs, ss in ((('0.7', '0.2'), ('0.5', '0.1')) if quick else (('0.7', '0.2'), ('0.5', '0.1'), ('0.9', '0.3'), ('0.6', '0.25'))):
            for j in (2, 3):
                for keep in ((False,) if quick else (False, True)):
                    out.append(('sibling', L, bs, ss, j, keep))
    if quick:
        out.append(('sibling', 3, '0.7', '0.2', 2, True))
    Ls = (1, 2, 3) if quick else (1, 2, 3, 4, 5, 6)
    for L in Ls:
        for P in ((0, 1, 2) if quick else (0, 1, 2, 3)):
            for (nb, na) in (((0, 0), (1, 1)) if quick else ((0, 0), (1, 0), (0, 2), (2, 1))):
                for e in range(L if not quick else min(L, 2)):
                    for j in (1, 4):
                        for tolerant in ((False,) if quick else (False, True)):
                            for rerun in (False, True):
                                out.append((L, P, nb, na, (e,), j, tolerant, rerun, False))
    if quick:
        # failure-ignoring scripts record the cycle in the database (every node builds "successfully"); the re-run meets it in
        # the recorded graph, where redo's dirtiness walk itself has to notice it
        for L in (1, 2, 3):
            for P in (0, 1):
                for j in (1, 4):
                    out.append((L, P, 0, 0, (0,), j, True, True, False))
    # --keep-going must not turn the cycle into a success (or into a hang): strict scripts, every entry point
    for L in ((2, 3) if quick else (1, 2, 3, 4, 5)):
        for P in ((0, 1) if quick else (0, 1, 2)):
            for (nb, na) in (((0, 0), (1, 1)) if quick else ((0, 0), (1, 0), (0, 2), (2, 1))):
                for e in range(L if not quick else min(L, 2)):
                    for j in (1, 3):
                        out.append((L, P, nb, na, (e,), j, False, False, False, None, True))
    for late in ('plain', 'stamp'):
        for j in (1, 4):
            out.append((3, 1, 0, 0, (0,), j, False, False, False, late, True))
    # long rings (file ids of mixed decimal length in the inherited chain), entered directly and through a prefix
    for L in ((7, 9, 12) if quick else (7, 8, 9, 10, 12, 15)):
        for P in ((0, 2) if quick else (0, 1, 2, 3)):
            for e in ((0,) if quick else (0, 3, L - 1)):
                for j in (1, 3):
                    out.append((L, P, 0, 0, (e,), j, False, False, False))
    # the cycle is closed by an edit after a successful acyclic build; the closing node may be checksummed / always
    for L in ((2, 3) if quick else (2, 3, 4, 5)):
        for P in ((0, 1) if quick else (0, 1, 2)):
            for late in ('plain', 'stamp', 'always+stamp'):
                for e in range(L if not quick else min(L, 2)):
                    for j in (1, 4):
                        out.append((L, P, 0, 0, (e,), j, False, False, False, late))
    # the same with a history that gives the cycle's members smaller file ids than their ancestors (ids are compared
    # as text in the inherited cycle chain)
    for L in ((2, 3) if quick else (2, 3, 4)):
        for P in ((1, 2) if quick else (0, 1, 2, 3)):
            for fill in ((3, 9, 17) if quick else (1, 3, 5, 9, 13, 17, 24, 40, 95)):
                for j in ((1,) if quick else (1, 4)):
                    out.append((L, P, 0, 0, (0,), j, False, False, False, 'plain@%d' % fill))
    # entered at two nodes at once (one command, or a parent asking for both)
    for L in ((2, 3) if quick else (2, 3, 4)):
        for P in (0, 1):
            for j in (1, 4):
                out.append((L, P, 0, 0, (0, 1), j, False, False, True))
    return out


RULE = ('cycles of length 1..6 (and rings of 7-15) reached through an acyclic prefix of length 0..3, with 0-2 acyclic siblings before/after the cyclic dependency '
        'in the same redo-ifchange list, every node of the cycle as entry point, -j1 (redo-ifchange) and -j4 (redo -j4), strict and '
        'failure-ignoring scripts, first build and re-run (recorded-graph check), with and without --keep-going (flag for redo, REDO_KEEP_GOING for redo-ifchange); cycles closed by an edit after a successful build (closing node plain, '
        'checksummed, always), also after a history that gives cycle members smaller file ids than their ancestors; plus entry at two nodes at once. Oracle: not stuck '
        '(two quiescent /proc samples with everyone blocked = violation; watchdog alone = inconclusive), no abort, non-zero top-level status '
        'for strict scripts, and exit status 208 / a cyclic-dependency message at the detecting process. Sibling layer: next to the cycle an acyclic sibling that waits for a member, '
        'while a member asks for `sibling next-member` in one list (-j2/-j3): the requester gives up when the next member reports the cycle instead of waiting for the sibling. Every case is non-trivial; '
        'distinct = parameter tuple.')
ASSUME = ['bounded-time restatement: terminates without ever being in the stuck state, within a 40 s watchdog']


def main(tier):
    col = Collector(PROP, tier, 'exploration', RULE, ASSUME, floor=20)
    its = items(tier)
    random.Random(common.seed()).shuffle(its)
    deadline = time.time() + (80 if tier == 'quick' else 700)
    for r in common.pmap(any_case, its, deadline=deadline):
        col.add(r)
    rc = col.finish(exhaustive=(time.time() < deadline))
    common.cleanup_scratch()
    return rc


def replay(path):
    import json
    d = json.load(open(path))
    it = d['replay']['item']
    common.ensure_built()
    if d['replay'].get('kind') == 'sibling':
        r = sibling_case(tuple(it))
    else:
        it[4] = tuple(it[4])
        r = cycle_case(tuple(it))
    from ..framework import replay_result
    return replay_result(PROP, r, path)
