"""C15 - Every spelling of a path denotes the same target."""
import itertools
import os
import posixpath
import random
import sqlite3
import time

from .. import common, scen
from ..framework import Collector
from ..prog import parse_trace, executed

PROP = 'C15'


# --------------------------------------------------------------------------- independent reference: lexical cleaning

def ref_clean(p):
    """Component-stack cleaner written from the documented rules (Plan 9 / Go Clean): bytes -> bytes."""
    if p == b'':
        return b'.'
    rooted = p[:1] == b'/'
    st = []
    for c in p.split(b'/'):
        if c == b'' or c == b'.':
            continue
        if c == b'..':
            if st and st[-1] != b'..':
                st.pop()
            elif not rooted:
                st.append(b'..')
        else:
            st.append(c)
    out = b'/'.join(st)
    if rooted:
        out = b'/' + out
    return out or b'.'


def strings(alphabet, maxlen, minlen=0):
    for n in range(minlen, maxlen + 1):
        for t in itertools.product(alphabet, repeat=n):
            yield ''.join(t).encode()


def ident(path):
    try:
        s = os.stat(path)
        return (s.st_dev, s.st_ino)
    except OSError:
        return None


def lident(path):
    try:
        s = os.lstat(path)
        return (s.st_dev, s.st_ino)
    except OSError:
        return None


def make_tree(root, symlinks):
    """a/b a/c (files), a/a/ b/ (dirs); with symlinks: la -> a, lb -> <abs>/b, a/lf -> c (file link), b/up -> ../a."""
    for d in ('a/a', 'b'):
        os.makedirs(os.path.join(root, d), exist_ok=True)
    for f in ('a/b', 'a/c', 'a/a/a', 'b/b'):
        common.write_file(os.path.join(root, f), f)
    if symlinks:
        os.symlink('a', os.path.join(root, 'la'))
        os.symlink(os.path.join(root, 'b'), os.path.join(root, 'lb'))
        os.symlink('c', os.path.join(root, 'a', 'lf'))
        os.symlink('../a', os.path.join(root, 'b', 'up'))


# --------------------------------------------------------------------------- layer A: direct calls

def direct_norm(item):
    """normpath over an exhaustive slice: idempotent, equal to the reference, and (on a symlink-free tree) names the same file."""
    _, alphabet, maxlen, shard, nshards = item
    allp = [p for i, p in enumerate(strings(alphabet, maxlen)) if i % nshards == shard]
    root = common.new_dir('c15t')
    anoms = []
    obs = dict(normpath_calls=0, kernel_comparisons=0, strings_that_resolve=0)
    try:
        make_tree(root, symlinks=False)
        out, rc, err = common.native_call('normpath', [[p] for p in allp])
        if out is None:
            if 'panicked' in err:
                return dict(verdict='violated', violations=[dict(key='normpath-panic', what=err[-300:])], nontrivial=True, shape=common.shash(list(item)),
                            replay=dict(kind='direct', item=list(item)), sample=dict(kind='normpath', alphabet=alphabet, maxlen=maxlen))
            return dict(verdict='inconclusive', why='native harness failed: %s' % err[-200:])
        obs['normpath_calls'] = 2 * len(allp)
        for p, (n1, n2) in zip(allp, out):
            n1, n2 = bytes.fromhex(n1), bytes.fromhex(n2)
            if n1 != n2:
                anoms.append(dict(key='normpath-not-idempotent', what='normpath(%r) = %r but normpath of that = %r' % (p, n1, n2)))
            w = ref_clean(p)
            if n1 != w:
                anoms.append(dict(key='normpath-differs-from-reference', what='normpath(%r) = %r, reference cleaner says %r' % (p, n1, w)))
            if len(anoms) > 5:
                break
            # kernel as ground truth, from two working directories of a symlink-free tree
            for cwd in (root, os.path.join(root, 'a')):
                if p[:1] == b'/':
                    if cwd != root:
                        continue
                    a = ident(p)
                    b = ident(n1) if a is not None else None
                else:
                    a = ident(os.path.join(cwd.encode(), p)) if p else None
                    b = ident(os.path.join(cwd.encode(), n1)) if a is not None else None
                if a is not None:
                    obs['strings_that_resolve'] += 1
                    obs['kernel_comparisons'] += 1
                    if a != b:
                        anoms.append(dict(key='normpath-changes-the-file', what='from %s: %r is inode %s, normpath gives %r = %s' % (os.path.relpath(cwd, root), p, a, n1, b)))
    finally:
        common.rmtree(root)
    res = dict(verdict='violated' if anoms else 'held', nontrivial=True, shape=common.shash(list(item)),
               sample=dict(kind='normpath-exhaustive', alphabet=alphabet, maxlen=maxlen, shard='%d/%d' % (shard, nshards), strings=len(allp)), obs=obs,
               sets=dict(direct_layers=['normpath/%s<=%d' % (alphabet, maxlen)]))
    if anoms:
        seen = set()
        res['violations'] = [a for a in anoms if not (a['key'] in seen or seen.add(a['key']))]
        res['replay'] = dict(kind='direct', item=list(item))
    return res


def direct_random(item):
    _, seed, n = item
    rnd = random.Random(seed)
    pieces = [b'a', b'bb', b'.', b'..', b'...', b'/', b'//', b' ', b'\xc3\xbc', b'\xff', b'\xfe\x80', b'x.y', b'.h', b'-', b'\\', b'*']
    ps = []
    for _ in range(n):
        k = rnd.randint(1, 24)
        p = b''.join(rnd.choice(pieces) for _ in range(k))[:64]
        ps.append(p)
    out, rc, err = common.native_call('normpath', [[p] for p in ps])
    if out is None:
        if 'panicked' in err:
            return dict(verdict='violated', violations=[dict(key='normpath-panic', what=err[-300:])], nontrivial=True, shape=common.shash(list(item)),
                        replay=dict(kind='direct', item=list(item)), sample=dict(kind='normpath-random'))
        return dict(verdict='inconclusive', why='native harness failed: %s' % err[-200:])
    anoms = []
    for p, (n1, n2) in zip(ps, out):
        n1, n2 = bytes.fromhex(n1), bytes.fromhex(n2)
        if n1 != n2:
            anoms.append(dict(key='normpath-not-idempotent', what='normpath(%r) = %r but normpath of that = %r' % (p, n1, n2)))
        if n1 != ref_clean(p):
            anoms.append(dict(key='normpath-differs-from-reference', what='normpath(%r) = %r, reference cleaner says %r' % (p, n1, ref_clean(p))))
    res = dict(verdict='violated' if anoms else 'held', nontrivial=True, shape=common.shash(list(item)),
               sample=dict(kind='normpath-random', seed=seed, strings=n, example=repr(ps[0])), obs=dict(normpath_calls=2 * n),
               sets=dict(direct_layers=['normpath/random<=64 bytes incl. non-UTF-8']))
    if anoms:
        res['violations'] = anoms[:4]
        res['replay'] = dict(kind='direct', item=list(item))
    return res


def direct_rel(item):
    """relpath / realdirpath on a tree with symlinked directories: re-joining yields the original location."""
    _, seed, n = item
    rnd = random.Random(seed)
    root = os.path.realpath(common.new_dir('c15r'))
    anoms = []
    obs = dict(relpath_calls=0, relpath_kernel_comparisons=0, relpath_lexical_comparisons=0, realdirpath_calls=0)
    try:
        make_tree(root, symlinks=True)
        comps = ['a', 'b', 'c', 'la', 'lb', 'lf', 'up', '.', '..', '', 'zz']
        bases = [root, root + '/a', root + '/a/a', root + '/b']          # physical directories (what redo passes)
        cwds = [root, root + '/a', root + '/b']
        by_cwd = {}
        for _ in range(n):
            k = rnd.randint(1, 5)
            t = '/'.join(rnd.choice(comps) for _ in range(k))
            if rnd.random() < 0.3:
                t = root + '/' + t
            if not t:
                t = '.'
            by_cwd.setdefault(rnd.choice(cwds), []).append((t, rnd.choice(bases)))
        for cwd, rows in by_cwd.items():
            out, rc, err = common.native_call('relpath', [[t.encode(), b.encode()] for t, b in rows], cwd=cwd)
            if out is None:
                if 'panicked' in err:
                    anoms.append(dict(key='relpath-panic', what=err[-300:]))
                    break
                return dict(verdict='inconclusive', why='native harness failed: %s' % err[-200:])
            for (t, base), r in zip(rows, out):
                obs['relpath_calls'] += 1
                at = t if t.startswith('/') else posixpath.join(cwd, t)
                d = posixpath.dirname(at.rstrip('/')) if at.rstrip('/') else '/'
                if r[0] != 'ok':
                    # only allowed to fail when the directory part cannot be canonicalised for a reason other than absence
                    if os.path.isdir(d) and not at.endswith('/'):
                        anoms.append(dict(key='relpath-error', what='relpath(%r, %r) from %s failed: %s' % (t, base, cwd, bytes.fromhex(r[1]).decode('utf-8', 'replace'))))
                    continue
                rel = bytes.fromhex(r[1]).decode('utf-8', 'replace')
                back = posixpath.join(base, rel) if rel else base
                last = [c for c in at.split('/') if c]
                if last and last[-1] in ('.', '..'):
                    continue          # a path that ends in . or .. names a directory, not a target: not used by redo
                if at.endswith('/'):
                    continue
                want = lident(at)
                if want is not None:
                    obs['relpath_kernel_comparisons'] += 1
                    got = lident(back)
                    if got != want:
                        anoms.append(dict(key='relpath-rejoin-names-another-file', what='from %s: %r is %s; relpath to %s = %r, re-joined %r is %s'
                                          % (os.path.relpath(cwd, root), t, want, os.path.relpath(base, root), rel, back, got)))
                elif os.path.isdir(d):
                    # the file does not exist but its directory does: the location must be the same
                    obs['relpath_kernel_comparisons'] += 1
                    a = os.path.realpath(d) + '/' + posixpath.basename(at)
                    bd = posixpath.dirname(back)
                    b = (os.path.realpath(bd) if os.path.isdir(bd) else None, posixpath.basename(back))
                    if b != (os.path.realpath(d), posixpath.basename(at)):
                        anoms.append(dict(key='relpath-rejoin-names-another-location', what='from %s: %r lies at %s; relpath to %s = %r re-joins to %r'
                                          % (os.path.relpath(cwd, root), t, a, os.path.relpath(base, root), rel, back)))
                else:
                    obs['relpath_lexical_comparisons'] += 1
            # realdirpath: directory part canonical, final component untouched
            # (absolute arguments only, as at redo's call sites: relpath joins the working directory first)
            rows2 = [((t if t.startswith('/') else posixpath.join(cwd, t)),) for t, _ in rows if not t.endswith('/')]
            out2, rc, err = common.native_call('realdirpath', [[t.encode()] for (t,) in rows2], cwd=cwd)
            if out2 is None:
                continue
            for (t,), r in zip(rows2, out2):
                obs['realdirpath_calls'] += 1
                if r[0] != 'ok':
                    continue
                got = bytes.fromhex(r[1]).decode('utf-8', 'replace')
                at = t if t.startswith('/') else posixpath.join(cwd, t)
                d, bname = posixpath.split(t)
                if posixpath.basename(got) != bname and bname not in ('', '.', '..'):
                    anoms.append(dict(key='realdirpath-changes-final-component', what='realdirpath(%r) = %r' % (t, got)))
                dabs = posixpath.dirname(at)
                if d not in ('', '.') and os.path.isdir(dabs) and bname not in ('', '.', '..'):
                    want = os.path.realpath(dabs) + '/' + bname
                    if ref_clean(got.encode()) != ref_clean(want.encode()):
                        anoms.append(dict(key='realdirpath-directory-not-canonical', what='from %s: realdirpath(%r) = %r, realpath(dirname)+basename = %r' % (cwd, t, got, want)))
            if len(anoms) > 6:
                break
    finally:
        common.rmtree(root)
    res = dict(verdict='violated' if anoms else 'held', nontrivial=obs['relpath_kernel_comparisons'] > 0, shape=common.shash(list(item)),
               sample=dict(kind='relpath-random', seed=seed, calls=n), obs=obs, sets=dict(direct_layers=['relpath+realdirpath/symlinked tree']))
    if anoms:
        seen = set()
        res['violations'] = [a for a in anoms if not (a['key'] in seen or seen.add(a['key']))][:5]
        res['replay'] = dict(kind='direct', item=list(item))
    return res


# --------------------------------------------------------------------------- layer B: commands

DO = scen.TRACE_HDR + 'echo "S $1 $$ $PPID" >&9\nsleep 0.0%d\nredo-ifchange "$RV_TOP/src"\necho "built $(cat "$RV_TOP/src")" > "$3"\necho "E $1 $$ 0" >&9\n'


def spellings(top, cwd_rel, target_rel):
    """Spellings of top/target_rel as seen from top/cwd_rel (list of (label, string))."""
    cwd = posixpath.normpath(posixpath.join(top, cwd_rel))
    abst = posixpath.join(top, target_rel)
    rel = posixpath.relpath(abst, cwd)
    d, b = posixpath.split(rel)
    out = [('relative', rel), ('absolute', abst), ('dot-slash', './' + rel), ('double-slash', rel.replace('/', '//') if '/' in rel else './/' + rel),
           ('dot-inside', posixpath.join(d, '.', b) if d else './' + b), ('absolute-dotdot', posixpath.join(top, 'sub', '..', target_rel)),
           ('absolute-double-slash', top + '//' + target_rel)]
    # through a directory and back
    first = rel.split('/')[0]
    if first not in ('..', '.') and '/' in rel:
        out.append(('down-and-up', first + '/../' + rel))
    else:
        out.append(('up-and-down', '../' + posixpath.basename(cwd) + '/' + rel) if cwd != top else ('down-and-up', 'sub/../' + rel))
    # through symlinked directories: ln -> sub/deep, lnsub -> sub (both in top)
    tdir = posixpath.dirname(target_rel)
    tb = posixpath.basename(target_rel)
    to_top = posixpath.relpath(top, cwd)
    if tdir == 'sub/deep':
        out.append(('symlinked-dir', posixpath.join(to_top, 'ln', tb)))
        out.append(('symlinked-dir-2', posixpath.join(to_top, 'lnsub', 'deep', tb)))
        out.append(('symlink-then-dotdot', posixpath.join(to_top, 'ln', '..', 'deep', tb)))
        out.append(('absolute-symlinked-dir', posixpath.join(top, 'ln', tb)))
    elif tdir == 'sub':
        out.append(('symlinked-dir', posixpath.join(to_top, 'lnsub', tb)))
        out.append(('symlink-then-dotdot', posixpath.join(to_top, 'ln', '..', tb)))
        out.append(('absolute-symlinked-dir', posixpath.join(top, 'lnsub', tb)))
    return out


def rows_for(top, target_rel):
    """Files rows (names relative to the base) that denote top/target_rel."""
    con = sqlite3.connect('file:%s?mode=ro' % os.path.join(top, '.redo', 'db.sqlite3'), uri=True, timeout=5)
    names = [n for (n,) in con.execute('select name from Files')]
    con.close()
    want = (os.path.realpath(posixpath.dirname(posixpath.join(top, target_rel))), posixpath.basename(target_rel))
    hit = []
    for n in names:
        if n.startswith('//'):
            continue
        p = posixpath.join(top, n)
        if (os.path.realpath(posixpath.dirname(p)), posixpath.basename(p)) == want:
            hit.append(n)
    return hit, names


def cmd_case(item):
    _, target_rel, cwd_rel, idxs, mode, j, seed = item
    pj = scen.Project({}, 'c15')
    top = os.path.realpath(pj.top)
    anoms = []
    obs = dict(command_cases=1, commands=0)
    sets = {}
    try:
        for d in ('sub/deep', 'other'):
            os.makedirs(os.path.join(top, d))
        os.symlink('sub/deep', os.path.join(top, 'ln'))
        os.symlink('sub', os.path.join(top, 'lnsub'))
        common.write_file(os.path.join(top, 'src'), 'v0\n')
        common.write_file(os.path.join(top, target_rel + '.do'), DO % 3)
        sp = spellings(top, cwd_rel, target_rel)
        chosen = [sp[i % len(sp)] for i in idxs]
        cwd = os.path.join(top, cwd_rel)
        sets['spelling_kinds'] = [l for l, _ in chosen]
        sets['cwds'] = [cwd_rel or '.']
        env_extra = {'RV_TOP': top}

        def run(argv, slots=None):
            r, _ = pj.run(argv, cwd=cwd, slots=slots, extra=env_extra)
            obs['commands'] += 1
            for a in scen.crash_anoms(r, pj.logs_text(), 'c15'):
                if a['cls'] == 'timeout':
                    raise TimeoutError()
                anoms.append(dict(key='%s:%s' % (a['cls'], mode), what='%s -> %s' % (argv, a['what'][:300])))
            return r
        label = '+'.join(l for l, _ in chosen)
        if mode == 'one-line':
            cmd = 'redo' if seed % 2 else 'redo-ifchange'
            argv = [cmd] + (['-j%d' % j] if cmd == 'redo' and j > 1 else []) + [s for _, s in chosen]
            r = run(argv, slots=(j if cmd != 'redo' and j > 1 else None))
            if r.rc != 0 and not anoms:
                anoms.append(dict(key='nonzero:one-line', what='%s from %s exits %s: %s' % (argv, cwd_rel or '.', r.rc, r.err[-300:].replace('\n', ' | '))))
            ex = executed(parse_trace(pj.trace_text()))
            n = sum(ex.values())
            if n != 1:
                anoms.append(dict(key='builds-not-one:one-line', what='%d executions for spellings %s of one file on one command line (%s)' % (n, [s for _, s in chosen], label)))
        elif mode == 'two-commands':
            for k, (l, s) in enumerate(chosen):
                r = run(['redo-ifchange', s])
                if r.rc != 0 and not anoms:
                    anoms.append(dict(key='nonzero:two-commands', what='redo-ifchange %r (%s) from %s exits %s: %s' % (s, l, cwd_rel or '.', r.rc, r.err[-300:].replace('\n', ' | '))))
            ex = executed(parse_trace(pj.trace_text()))
            n = sum(ex.values())
            if n != 1:
                anoms.append(dict(key='builds-not-one:two-commands', what='%d executions after redo-ifchange of %s in turn: a spelling was taken for another target' % (n, [s for _, s in chosen])))
        elif mode == 'one-line-contended':
            # another invocation is building the file (so this command meets it locked) while two or three spellings of it
            # stand on one `redo` command line: one forced rebuild after the lock is free, not one per spelling
            common.write_file(os.path.join(top, target_rel + '.do'), DO % 9 + 'sleep 0.6\n')
            argv = ['redo'] + (['-j%d' % j] if j > 1 else []) + [s for _, s in chosen]
            res = pj.run_many([dict(argv=['redo', target_rel], cwd=top, extra=env_extra), dict(argv=argv, cwd=cwd, delay=0.3, extra=env_extra)], timeout=60)
            obs['commands'] += 2
            for r in res:
                for a in scen.crash_anoms(r, pj.logs_text(), 'c15'):
                    if a['cls'] == 'timeout':
                        raise TimeoutError()
                    anoms.append(dict(key='%s:%s' % (a['cls'], mode), what='%s -> %s' % (argv, a['what'][:300])))
                if r.rc != 0 and not anoms:
                    anoms.append(dict(key='nonzero:one-line-contended', what='%s exits %s: %s' % (argv, r.rc, r.err[-300:].replace('\n', ' | '))))
            ex = executed(parse_trace(pj.trace_text()))
            n = sum(ex.values())
            if n != 2:
                anoms.append(dict(key='builds-not-one:one-line-contended', what='%d executions in total (1 by the other invocation + 1 forced expected) for spellings %s on one command line (%s)'
                                  % (n, [s for _, s in chosen], label)))
        else:   # dependency: a consumer declares the file through an odd spelling; editing the real input must rebuild the consumer
            l, s = chosen[0]
            common.write_file(os.path.join(cwd, 'cons.do'),
                              scen.TRACE_HDR + 'echo "S $1 $$ $PPID" >&9\nredo-ifchange "%s"\ncat "%s" > "$3"\necho "E $1 $$ 0" >&9\n' % (s, s))
            r = run(['redo-ifchange', 'cons'])
            if r.rc != 0 and not anoms:
                anoms.append(dict(key='nonzero:dependency', what='consumer of %r (%s) exits %s: %s' % (s, l, r.rc, r.err[-300:].replace('\n', ' | '))))
            open(pj.trace, 'w').close()
            common.write_file(os.path.join(top, 'src'), 'v1 longer\n')
            os.utime(os.path.join(top, 'src'), ns=(int(time.time() * 1e9) + 3 * 10 ** 9,) * 2)
            # ask for the file by its plain name first (rebuilds it), then for the consumer
            r = run(['redo-ifchange', posixpath.relpath(posixpath.join(top, target_rel), cwd)])
            r = run(['redo-ifchange', 'cons'])
            ex = executed(parse_trace(pj.trace_text()))
            got = common.read_file(os.path.join(cwd, 'cons'))
            if not anoms and (ex.get('cons', 0) != 1 or got != b'built v1 longer\n'):
                anoms.append(dict(key='dependency-through-spelling-lost', what='consumer declared %r (%s); after the file changed the consumer ran %d times and holds %r'
                                  % (s, l, ex.get('cons', 0), got)))
            if sum(v for k_, v in ex.items() if k_ != 'cons') != 1 and not anoms:
                anoms.append(dict(key='builds-not-one:dependency', what='executions after the edit: %s' % ex))
        if os.path.exists(os.path.join(top, '.redo', 'db.sqlite3')):
            hit, names = rows_for(top, target_rel)
            obs['files_rows_seen'] = len(names)
            if len(hit) != 1:
                anoms.append(dict(key='records-not-one:%s' % mode, what='%d Files rows denote %s: %s (spellings %s from %s)' % (len(hit), target_rel, hit, [s for _, s in chosen], cwd_rel or '.')))
            elif hit[0] != target_rel:
                anoms.append(dict(key='record-name-not-canonical:%s' % mode, what='%s is recorded as %r' % (target_rel, hit[0])))
    except TimeoutError:
        return dict(verdict='inconclusive', why='watchdog without stuck witness', sample=dict(item=list(item)))
    finally:
        pj.close()
    res = dict(verdict='violated' if anoms else 'held', nontrivial=True, shape=common.shash(list(item)),
               sample=dict(kind='command', mode=mode, j=j, cwd=cwd_rel or '.', target=target_rel, spellings=[s.replace(top, '<top>') for _, s in chosen]),
               obs=obs, sets=sets)
    if anoms:
        seen = set()
        res['violations'] = [a for a in anoms if not (a['key'] in seen or seen.add(a['key']))]
        res['replay'] = dict(kind='command', item=list(item))
    return res


def oob_case(item):
    """Names handed from one redo process to another (the out-of-band step): a consumer whose script runs in a directory other
    than the consumer's own (an ancestor default rule, or a script that changes directory) asks - through some spelling - for a
    target that is only "maybe out of date" (it sits above a checksummed target whose input changed).  redo brings the checksummed
    target up to date in a separate process; every name must still denote the file it denoted."""
    _, mid_dir, consumer, idx, change, j, seed = item
    pj = scen.Project({}, 'c15o')
    top = os.path.realpath(pj.top)
    anoms = []
    obs = dict(command_cases=1, commands=0)
    sets = dict(spelling_kinds=[], oob_consumers=[consumer])
    try:
        for d in ('sub/deep', 'other'):
            os.makedirs(os.path.join(top, d))
        os.symlink('sub/deep', os.path.join(top, 'ln'))
        os.symlink('sub', os.path.join(top, 'lnsub'))
        W = lambda rel, text: common.write_file(os.path.join(top, rel), text)        # noqa: E731
        W('src', 'a1\n')
        W('src2', 'x0\n')
        hdr = scen.TRACE_HDR + 'echo "S $1 $$ $PPID" >&9\n'
        st = posixpath.join(mid_dir, 'st.out')
        mid = posixpath.join(mid_dir, 'mid.out')
        W(st + '.do', hdr + 'redo-ifchange "$RV_TOP/src"\ncut -c1 "$RV_TOP/src" > "$3"\nredo-stamp < "$3"\necho "E $1 $$ 0" >&9\n')
        W(mid + '.do', hdr + 'redo-ifchange st.out\ncat st.out > "$3"\necho "E $1 $$ 0" >&9\n')
        # the consumer: where its script runs differs from where it lives
        if consumer == 'ancestor-default':
            cons, cwd_of_script = 'sub/deep/c.gen', ''
            rule = 'default.gen.do'
            pre = ''
        elif consumer == 'parent-default':
            cons, cwd_of_script = 'sub/deep/c.gen', 'sub'
            rule = 'sub/default.gen.do'
            pre = ''
        else:   # its own rule, which changes directory before asking
            cons, cwd_of_script = 'other/c.gen', 'sub'
            rule = 'other/c.gen.do'
            pre = 'cd'
        sp = spellings(top, cwd_of_script, mid)
        label, spelled = sp[idx % len(sp)]
        sets['spelling_kinds'] = [label]
        ask = 'redo-ifchange "$RV_TOP/src2" "%s"' % spelled
        if pre == 'cd':
            ask = '(cd "$RV_TOP/sub" && %s)' % ask
        W(rule, hdr + ask + '\ncat "$RV_TOP/%s" "$RV_TOP/src2" > "$3"\necho "E $1 $$ 0" >&9\n' % mid)
        env_extra = {'RV_TOP': top}

        def run(argv, slots=None):
            r, _ = pj.run(argv, cwd=top, slots=slots, extra=env_extra)
            obs['commands'] += 1
            for a in scen.crash_anoms(r, pj.logs_text(), 'c15'):
                if a['cls'] == 'timeout':
                    raise TimeoutError()
                anoms.append(dict(key='%s:oob' % a['cls'], what='%s -> %s' % (argv, a['what'][:300])))
            return r
        r = run(['redo-ifchange', cons])
        if r.rc != 0 and not anoms:
            anoms.append(dict(key='nonzero:oob:first-build', what='%s (%s, mid through %r): exit %s: %s' % (cons, consumer, spelled, r.rc, r.err[-300:].replace('\n', ' | '))))
        open(pj.trace, 'w').close()
        # edit below the checksummed target (checksum kept or changed) and the consumer's own source: the consumer's script runs
        # and meets `mid` as "maybe out of date"
        W('src', 'a2 longer\n' if change == 'same-checksum' else 'b2 longer\n')
        W('src2', 'x1 longer\n')
        for f in ('src', 'src2'):
            os.utime(os.path.join(top, f), ns=(int(time.time() * 1e9) + 3 * 10 ** 9,) * 2)
        argv = ['redo-ifchange', cons] if j == 1 else ['redo-ifchange', cons]
        r = run(argv, slots=(j if j > 1 else None))
        if r.rc != 0 and not anoms:
            anoms.append(dict(key='nonzero:oob', what='%s (%s, mid through %r, %s) after the edits: exit %s: %s' % (cons, consumer, spelled, change, r.rc, r.err[-300:].replace('\n', ' | '))))
        ex = executed(parse_trace(pj.trace_text()))
        want = {posixpath.basename(cons): 1, 'st.out': 1}
        if change != 'same-checksum':
            want['mid.out'] = 1
        got = {posixpath.basename(k): v for k, v in ex.items()}
        if not anoms and got != want:
            anoms.append(dict(key='executions:oob:%s' % change, what='after the edits %s ran, expected %s (%s, mid through %r)' % (got, want, consumer, spelled)))
        body = common.read_file(os.path.join(top, cons))
        wantb = (b'a\n' if change == 'same-checksum' else b'b\n') + b'x1 longer\n'
        if not anoms and body != wantb:
            anoms.append(dict(key='stale:oob', what='%s holds %r, expected %r' % (cons, body, wantb)))
        if os.path.exists(os.path.join(top, '.redo', 'db.sqlite3')):
            for rel in (mid, st, cons):
                hit, names = rows_for(top, rel)
                obs['files_rows_seen'] = len(names)
                if len(hit) != 1:
                    anoms.append(dict(key='records-not-one:oob', what='%d Files rows denote %s: %s' % (len(hit), rel, hit)))
                elif hit[0] != rel:
                    anoms.append(dict(key='record-name-not-canonical:oob', what='%s is recorded as %r' % (rel, hit[0])))
            stray = [n for n in names if n.startswith('..') or (not n.startswith('//') and not os.path.lexists(os.path.join(top, n)) and not n.endswith('.do')
                                                                and posixpath.basename(n) in ('st.out', 'mid.out', 'c.gen', 'src', 'src2'))]
            if stray:
                anoms.append(dict(key='stray-record:oob', what='Files rows for files that do not exist / lie outside: %s' % stray[:5]))
    except TimeoutError:
        return dict(verdict='inconclusive', why='watchdog without stuck witness', sample=dict(item=list(item)))
    finally:
        pj.close()
    res = dict(verdict='violated' if anoms else 'held', nontrivial=True, shape=common.shash(list(item)),
               sample=dict(kind='out-of-band', mid_dir=mid_dir, consumer=consumer, change=change, j=j), obs=obs, sets=sets)
    if anoms:
        seen = set()
        res['violations'] = [a for a in anoms if not (a['key'] in seen or seen.add(a['key']))]
        res['replay'] = dict(kind='command', item=list(item))
    return res


def moved_case(item):
    """A directory that held recorded targets is renamed and a symbolic link takes its old name (lib -> lib-v2): names recorded
    before the move are stale, but every spelling of the file - through the link or not, relative or absolute - still has to be
    one target: one build per change, whichever spelling asks."""
    _, pair, j, depth, seed = item
    pj = scen.Project({}, 'c15m')
    top = os.path.realpath(pj.top)
    anoms = []
    obs = dict(command_cases=1, commands=0)
    try:
        lib = 'lib' if depth == 0 else 'pkg/lib'
        new = lib + '-v2'
        os.makedirs(os.path.join(top, lib))
        common.write_file(os.path.join(top, 'src'), 'v0\n')
        common.write_file(os.path.join(top, lib, 'x.do'), DO % 3)
        env_extra = {'RV_TOP': top}

        def run(argv, cwd=top, slots=None):
            r, _ = pj.run(argv, cwd=cwd, slots=slots, extra=env_extra)
            obs['commands'] += 1
            for a in scen.crash_anoms(r, pj.logs_text(), 'c15'):
                if a['cls'] == 'timeout':
                    raise TimeoutError()
                anoms.append(dict(key='%s:dir-moved' % a['cls'], what='%s -> %s' % (argv, a['what'][:300])))
            return r
        # recorded while lib is a real directory, through two spellings
        run(['redo-ifchange', lib + '/x'])
        run(['redo-ifchange', posixpath.join(top, lib, 'x')])
        os.rename(os.path.join(top, lib), os.path.join(top, new))
        os.symlink(posixpath.basename(new), os.path.join(top, lib))
        # (the output that moved along is no longer known to redo under its new name: it would be taken for a file of the user, C11;
        #  the user removes it, as after any reorganisation of a tree)
        os.unlink(os.path.join(top, new, 'x'))
        sp = [('through-link', lib + '/x'), ('new-name', new + '/x'), ('absolute-through-link', posixpath.join(top, lib, 'x')),
              ('absolute-new-name', posixpath.join(top, new, 'x')), ('dot-slash-link', './' + lib + '/x'), ('from-inside', 'x')]
        a, b = sp[pair[0] % len(sp)], sp[pair[1] % len(sp)]
        clock = [int(time.time() * 1e9) + 3 * 10 ** 9]

        def edit(text):
            common.write_file(os.path.join(top, 'src'), text)
            clock[0] += 2 * 10 ** 9
            os.utime(os.path.join(top, 'src'), ns=(clock[0], clock[0]))

        def ask(spell, **kw):
            if spell[0] == 'from-inside':
                return run(['redo-ifchange', 'x'], cwd=os.path.join(top, new), **kw)
            return run(['redo-ifchange', spell[1]], **kw)
        # (1) a change, then both spellings on one command line (or one after the other when one of them needs another cwd)
        edit('v1 after the move\n')
        open(pj.trace, 'w').close()
        if 'from-inside' in (a[0], b[0]):
            r1 = ask(a)
            r2 = ask(b)
            rcs = [r1.rc, r2.rc]
        else:
            r1 = run(['redo-ifchange', a[1], b[1]], slots=(j if j > 1 else None))
            rcs = [r1.rc]
        n = sum(executed(parse_trace(pj.trace_text())).values())
        got = common.read_file(os.path.join(top, new, 'x'))
        if any(rcs) and not anoms:
            anoms.append(dict(key='nonzero:dir-moved', what='%s + %s after %s was renamed and linked back: exit %s: %s' % (a[1], b[1], lib, rcs, r1.err[-300:].replace('\n', ' | '))))
        elif n != 1:
            anoms.append(dict(key='builds-not-one:dir-moved', what='%d executions for %s and %s (one file) after one change' % (n, a[0], b[0])))
        elif got != b'built v1 after the move\n':
            anoms.append(dict(key='stale:dir-moved', what='content %r after exit 0' % got))
        # (2) another change: the first spelling rebuilds, the second finds it up to date; then the reverse order
        for rnd_, (s1, s2) in enumerate(((a, b), (b, a))):
            if anoms:
                break
            edit('v%d again\n' % (rnd_ + 2))
            open(pj.trace, 'w').close()
            ra = ask(s1)
            n1 = sum(executed(parse_trace(pj.trace_text())).values())
            rb = ask(s2)
            n2 = sum(executed(parse_trace(pj.trace_text())).values())
            got = common.read_file(os.path.join(top, new, 'x'))
            if ra.rc != 0 or rb.rc != 0:
                anoms.append(dict(key='nonzero:dir-moved', what='%s then %s: exit %s, %s' % (s1[0], s2[0], ra.rc, rb.rc)))
            elif (n1, n2) != (1, 1):
                anoms.append(dict(key='builds-not-one:dir-moved', what='after a change %s ran %d script(s), then %s ran %d more (1 and 0 expected): the spellings are taken for different targets'
                                  % (s1[0], n1, s2[0], n2 - n1)))
            elif got != ('built v%d again\n' % (rnd_ + 2)).encode():
                anoms.append(dict(key='stale:dir-moved', what='content %r after %s, %s' % (got, s1[0], s2[0])))
    except TimeoutError:
        return dict(verdict='inconclusive', why='watchdog without stuck witness', sample=dict(item=list(item)))
    finally:
        pj.close()
    res = dict(verdict='violated' if anoms else 'held', nontrivial=True, shape=common.shash(list(item)),
               sample=dict(kind='dir-moved', spellings=[a[0], b[0]], j=j, depth=depth), obs=obs, sets=dict(spelling_kinds=['moved:' + a[0], 'moved:' + b[0]]))
    if anoms:
        res['violations'] = anoms[:3]
        res['replay'] = dict(kind='command', item=list(item))
    return res


def latedir_case(item):
    """The target's directory does not exist yet (the rule creates it with mkdir -p) and is named through a symbolic link to
    its parent (link -> real): link/new/x.t and real/new/x.t are one target - one record, one lock, one build - before the
    directory exists as well as afterwards."""
    _, pair, mode, j, seed = item
    mid = 'new' if seed % 2 == 0 else 'new/deeper/still'      # one missing level, or three
    pj = scen.Project({}, 'c15l')
    top = os.path.realpath(pj.top)
    anoms = []
    obs = dict(command_cases=1, commands=0)
    try:
        os.makedirs(os.path.join(top, 'real'))
        os.symlink('real', os.path.join(top, 'link'))
        common.write_file(os.path.join(top, 'src'), 'v0\n')
        common.write_file(os.path.join(top, 'default.t.do'), 'mkdir -p "$(dirname "$3")"\n' + DO % 3 + 'sleep 0.3\n')
        env_extra = {'RV_TOP': top}
        sp = [('through-link', 'link/%s/x.t' % mid), ('real-name', 'real/%s/x.t' % mid), ('absolute-through-link', posixpath.join(top, 'link/%s/x.t' % mid)),
              ('absolute-real-name', posixpath.join(top, 'real/%s/x.t' % mid)), ('dot-slash-link', './link/%s/x.t' % mid), ('link-detour', 'link/../link/%s/x.t' % mid)]
        a, b = sp[pair[0] % len(sp)], sp[pair[1] % len(sp)]

        def note(r, argv):
            obs['commands'] += 1
            for x in scen.crash_anoms(r, pj.logs_text(), 'c15'):
                if x['cls'] == 'timeout':
                    raise TimeoutError()
                anoms.append(dict(key='%s:late-directory' % x['cls'], what='%s -> %s' % (argv, x['what'][:300])))
        if mode == 'one-line':
            argv = ['redo-ifchange', a[1], b[1]]
            r, _ = pj.run(argv, cwd=top, slots=(j if j > 1 else None), extra=env_extra)
            note(r, argv)
            rcs = [r.rc]
        elif mode == 'two-commands':
            rcs = []
            for s_ in (a, b):
                r, _ = pj.run(['redo-ifchange', s_[1]], cwd=top, extra=env_extra)
                note(r, s_[1])
                rcs.append(r.rc)
        else:   # two invocations at the same time, one spelling each
            res = pj.run_many([dict(argv=['redo-ifchange', a[1]], cwd=top, extra=env_extra), dict(argv=['redo-ifchange', b[1]], cwd=top, delay=0.1, extra=env_extra)], timeout=60)
            for r in res:
                note(r, 'concurrent')
            rcs = [r.rc for r in res]
        recs = parse_trace(pj.trace_text())
        n = sum(executed(recs).values())
        if any(rcs) and not anoms:
            anoms.append(dict(key='nonzero:late-directory', what='%s / %s (%s): exit %s' % (a[1], b[1], mode, rcs)))
        elif n != 1 and not anoms:
            anoms.append(dict(key='builds-not-one:late-directory', what='%d executions for %s and %s (%s): one file whose directory did not exist yet, named through a symlinked parent'
                              % (n, a[0], b[0], mode)))
        if not anoms and os.path.exists(os.path.join(top, '.redo', 'db.sqlite3')):
            hit, names = rows_for(top, 'real/%s/x.t' % mid)
            obs['files_rows_seen'] = len(names)
            if len(hit) != 1:
                anoms.append(dict(key='records-not-one:late-directory', what='%d Files rows denote real/%s/x.t: %s (spellings %s, %s; %s)' % (len(hit), mid, hit, a[0], b[0], mode)))
    except TimeoutError:
        return dict(verdict='inconclusive', why='watchdog without stuck witness', sample=dict(item=list(item)))
    finally:
        pj.close()
    res = dict(verdict='violated' if anoms else 'held', nontrivial=True, shape=common.shash(list(item)),
               sample=dict(kind='late-directory', spellings=[a[0], b[0]], mode=mode, j=j), obs=obs, sets=dict(spelling_kinds=['late:' + a[0], 'late:' + b[0]]))
    if anoms:
        res['violations'] = anoms[:3]
        res['replay'] = dict(kind='command', item=list(item))
    return res


def dispatch(item):
    return {'norm': direct_norm, 'rand': direct_random, 'rel': direct_rel, 'cmd': cmd_case, 'oob': oob_case, 'moved': moved_case, 'late': latedir_case}[item[0]](item)


RULE = ('layer A (direct calls through native/harness): normpath on every byte string over {a,b,.,/} up to length 7 (quick) / 8 (thorough) and over '
        '{a,.,/} up to 9 / 10, plus random strings up to 64 bytes with spaces, unicode and non-UTF-8 bytes: idempotent and equal to an independent '
        'component-stack cleaner; for every enumerated string that resolves in a symlink-free tree (from two working directories) the kernel '
        'must report the same inode for the string and for its cleaned form; relpath(t, base) for random t over a tree with relative, absolute '
        'and file symlinks, physical bases: lstat of the re-joined path equals lstat of t (or the same directory+name when t does not exist); '
        'realdirpath keeps the final component and canonicalises the directory part. Layer B (commands): one file, 8-12 spellings (relative, '
        'absolute, ./, //, dir/../, through two symlinked directories, symlink-then-..) from 4 working directories; two or three spellings on '
        'one command line (redo and redo-ifchange, -j1 and -j4; also while another invocation holds the lock of the target), in consecutive commands, and as a dependency declared by a consumer: exactly '
        'one script execution, exit 0, no abort, exactly one Files row, named canonically; the consumer is rebuilt when the real file changes; out-of-band hand-over: a consumer whose script runs outside its own directory (ancestor / parent default rule, script that changes directory) asks through a spelling for a target that is only maybe out of date (above a checksummed target whose input changed, checksum kept or not): executions, bytes, one canonical Files row each, no stray rows; a directory with recorded targets is renamed and a symbolic link takes its old name (lib -> lib-v2): pairs of spellings through the link / the new name / absolute / from inside still are one target (one build per change, whichever asks first); a target whose directory does not exist yet (the rule makes it) named through a symlinked parent and through the real one, on one command line, in two commands and in two concurrent invocations: one execution, one Files row. '
        'Layer C: the same normpath / abs_path / RedoPath workloads (with the reference check inside) interpreted by Miri; in the thorough tier also the crate\'s own unit tests of helpers and state (normpath, relpath, realdirpath vectors) interpreted by Miri.')
ASSUME = ['lexical cleaning is compared with the kernel only on symlink-free trees', 'relpath bases are physical directories (as at redo\'s call sites)',
          'paths ending in . or .. or / are not targets']


def main(tier):
    quick = tier == 'quick'
    rnd = random.Random(common.seed() * 17 + (0 if quick else 1))
    col = Collector(PROP, tier, 'exploration', RULE, ASSUME, floor=20)
    t0 = time.time()
    budget = 100 if quick else 900
    items = []
    ns = 8
    for sh in range(ns):
        items.append(('norm', 'ab./', 7 if quick else 8, sh, ns))
        items.append(('norm', 'a./', 9 if quick else 10, sh, ns))
    for i in range(4 if quick else 40):
        items.append(('rand', common.seed() * 1000 + i, 4000))
        items.append(('rel', common.seed() * 1000 + i, 1000 if quick else 3000))
    targets = ['sub/deep/x.out', 'sub/y.out', 'z.out']
    cwds = ['', 'sub', 'sub/deep', 'other']
    cmd_items = []
    for t in targets:
        for c in cwds:
            for mode in ('one-line', 'two-commands', 'dependency', 'one-line-contended'):
                for rep in range(6 if quick else 30):
                    k = 1 if mode == 'dependency' else rnd.choice([2, 2, 3])
                    idxs = tuple(rnd.sample(range(13), k))
                    cmd_items.append(('cmd', t, c, idxs, mode, rnd.choice([1, 4]), rnd.randrange(1000)))
    for mid_dir in ('', 'sub', 'sub/deep', 'other'):
        for consumer in ('ancestor-default', 'parent-default', 'cd-script'):
            for change in ('same-checksum', 'new-checksum'):
                for rep in range(1 if quick else 6):
                    cmd_items.append(('oob', mid_dir, consumer, rnd.randrange(13), change, rnd.choice([1, 3]), rnd.randrange(1000)))
    pairs = [(x, y) for x in range(6) for y in range(6) if x != y]
    for pr in (rnd.sample(pairs, 10) if quick else pairs):
        for depth in (0, 1):
            cmd_items.append(('moved', pr, rnd.choice([1, 3]), depth, rnd.randrange(1000)))
    for pr in (rnd.sample(pairs, 8) if quick else pairs):
        for mode in ('one-line', 'two-commands', 'concurrent'):
            cmd_items.append(('late', pr, mode, rnd.choice([1, 3]), rnd.randrange(1000)))
    rnd.shuffle(cmd_items)
    items += cmd_items
    common.ensure_native()
    for r in common.pmap(dispatch, items, deadline=t0 + budget):
        col.add(r)
    from . import miri_layer
    extra = miri_layer.run(col, PROP, deadline=time.time() + (120 if quick else 400), modes=('normpath', 'redopath'),
                           count=(80 if quick else 400), shards=(4 if quick else 16))
    if not quick:
        from . import memcheck_layer
        memcheck_layer.run(col, PROP, ('normpath', 'redopath'), time.time() + 300)
        ut = miri_layer.unit_tests(col, PROP, ('helpers::tests', 'state::tests'), time.time() + 600)
        if isinstance(extra, dict):
            extra['miri_unit_tests'] = ut
    rc = col.finish(extra_coverage=extra)
    common.cleanup_scratch()
    return rc


def replay(path):
    import json
    d = json.load(open(path))
    common.ensure_built()
    common.ensure_native()
    it = d['replay']['item']
    it = [tuple(x) if isinstance(x, list) else x for x in it]
    r = dispatch(tuple(it))
    print(r.get('verdict'), r.get('violations') or r.get('why'))
    common.cleanup_scratch()
    if r.get('verdict') == 'violated':
        print('VIOLATION property=%s replay=%s' % (PROP, path))
        return 1
    return 0
