"""Miri layer (undefined-behaviour / aliasing interpreter) for the pure path and log-record functions.

The harness crate lives in native/miri (sources) and is assembled under .cache/miri at run time:
/repo's pinned lockfile does not build on the installed nightly (proc-macro2 1.0.47 and ahash 0.7.6 use
nightly features that no longer exist), so *in the harness workspace only* proc-macro2 is bumped to the
cached 1.0.107 and ahash is patched with a copy of the cached crate whose build script no longer switches
those features on.  Nothing in /repo is touched.  Scope: normpath / LazyBuf / OsBytes / abs_path, RedoPath
conversions, Meta format+parse.  Not possible_do_files / Files::list (ouroboros 0.15 drop glue is flagged by
Miri's aliasing models: a property of that dependency, not one of the 18 properties; see DESIGN.md 2.8).
"""
import glob
import os
import re
import shutil
import subprocess
import tarfile
import time

from .. import common

MIRI_DIR = os.path.join(common.CACHE, 'miri')


def ensure():
    """Assemble the workspace; returns (crate_dir, None) or (None, reason)."""
    src = os.path.join(common.VERIF, 'native', 'miri')
    crate = os.path.join(MIRI_DIR, 'crate')
    ah = os.path.join(MIRI_DIR, 'ahash-0.7.6')
    os.makedirs(MIRI_DIR, exist_ok=True)
    if not os.path.exists(os.path.join(ah, 'Cargo.toml')):
        tars = glob.glob(os.path.expanduser('~/.cargo/registry/cache/*/ahash-0.7.6.crate'))
        if not tars:
            return None, 'ahash-0.7.6.crate not in the cargo registry cache'
        with tarfile.open(tars[0]) as tf:
            tf.extractall(MIRI_DIR)
        b = os.path.join(ah, 'build.rs')
        txt = open(b).read()
        txt2 = '\n'.join(l for l in txt.split('\n') if 'cargo:rustc-cfg=feature' not in l or ('specialize' not in l and 'stdsimd' not in l))
        open(b, 'w').write(txt2)
        for junk in ('.cargo_vcs_info.json', 'Cargo.toml.orig'):
            try:
                os.unlink(os.path.join(ah, junk))
            except OSError:
                pass
    os.makedirs(os.path.join(crate, 'src'), exist_ok=True)
    shutil.copy(os.path.join(src, 'src', 'main.rs'), os.path.join(crate, 'src', 'main.rs'))
    toml = open(os.path.join(src, 'Cargo.toml.in')).read().replace('@REPO@', common.REPO).replace('@AHASH@', ah)
    open(os.path.join(crate, 'Cargo.toml'), 'w').write(toml)
    lock = os.path.join(crate, 'Cargo.lock')
    env = dict(os.environ, CARGO_NET_OFFLINE='true')
    repo_lock = open(os.path.join(common.REPO, 'Cargo.lock')).read()
    stamp = os.path.join(crate, '.lock-src')
    if not os.path.exists(lock) or not os.path.exists(stamp) or open(stamp).read() != repo_lock:
        open(lock, 'w').write(repo_lock)
        p = subprocess.run(['cargo', '+nightly', 'update', '--offline', '-p', 'proc-macro2', '--precise', '1.0.107'], cwd=crate, env=env,
                           stdout=subprocess.PIPE, stderr=subprocess.STDOUT, text=True)
        if p.returncode != 0:
            return None, 'cargo update of the harness lockfile failed: %s' % p.stdout[-300:]
        open(stamp, 'w').write(repo_lock)
    return crate, None


def run_one(crate, mode, seed, count, timeout):
    env = dict(os.environ, CARGO_NET_OFFLINE='true', MIRIFLAGS='-Zmiri-disable-isolation', CARGO_TARGET_DIR=os.path.join(MIRI_DIR, 'target'))
    t0 = time.time()
    try:
        p = subprocess.run(['cargo', '+nightly', 'miri', 'run', '--offline', '-q', '--', mode, str(seed), str(count)], cwd=crate, env=env,
                           stdout=subprocess.PIPE, stderr=subprocess.PIPE, text=True, timeout=timeout)
    except subprocess.TimeoutExpired:
        return dict(status='timeout', wall=time.time() - t0)
    m = re.search(r'MIRI-WORKLOAD mode=(\S+) seed=(\d+) done=(\d+) mismatches=(\d+)', p.stdout)
    ub = re.search(r'error: Undefined Behavior[^\n]*(?:\n[^\n]*){0,12}', p.stderr)
    return dict(status='ok' if p.returncode == 0 and m else ('ub' if ub else ('mismatch' if m and int(m.group(4)) else 'error')),
                done=int(m.group(3)) if m else 0, mismatches=int(m.group(4)) if m else 0, ub=ub.group(0) if ub else None,
                out=p.stdout[-600:], err=p.stderr[-1500:], wall=time.time() - t0, rc=p.returncode)


def _job(a):
    return (a[1], a[2], run_one(*a))


def run(col, prop, deadline, modes=('normpath', 'redopath', 'meta'), count=250, shards=8):
    """Runs the Miri workloads, adds one case per shard to the collector, returns extra coverage."""
    crate, why = ensure()
    if crate is None:
        col.add(dict(verdict='inconclusive', why='Miri layer unavailable: %s' % why))
        return dict(miri='unavailable: %s' % why)
    # first call builds the dependency graph for the Miri target (single process), the rest runs sharded
    first = run_one(crate, modes[0], 1, 5, timeout=max(60, deadline - time.time()))
    if first['status'] in ('error', 'timeout'):
        col.add(dict(verdict='inconclusive', why='Miri build/run failed (%s): %s' % (first['status'], (first.get('err') or '')[-300:])))
        return dict(miri='failed to start')
    # self-test of the monitor: a deliberate out-of-bounds read in the harness itself must be reported
    st = run_one(crate, 'selftest-ub', 1, 1, timeout=max(60, deadline - time.time()))
    if st['status'] != 'ub':
        col.add(dict(verdict='inconclusive', why='Miri self-test did not report the planted out-of-bounds read (status %s)' % st['status']))
        return dict(miri='self-test failed')
    jobs = [(crate, m, common.seed() * 100 + s, count, max(30, deadline - time.time())) for m in modes for s in range(shards)]
    import multiprocessing
    total = 0
    with multiprocessing.Pool(min(common.NPROC, len(jobs))) as pool:
        for mode, seed, r in pool.imap_unordered(_job, jobs):
            sample = dict(kind='miri', mode=mode, seed=seed, calls=r.get('done'), wall_s=round(r['wall'], 1))
            if r['status'] == 'ok':
                total += r['done']
                col.add(dict(verdict='held', nontrivial=True, shape='miri:%s:%d' % (mode, seed), sample=sample,
                             obs=dict(miri_calls=r['done'], miri_processes=1), sets=dict(miri_modes=[mode])))
            elif r['status'] == 'timeout':
                col.add(dict(verdict='inconclusive', why='Miri shard timed out', sample=sample))
            elif r['status'] == 'ub':
                col.add(dict(verdict='violated', nontrivial=True, shape='miri:%s:%d' % (mode, seed), sample=sample,
                             violations=[dict(key='miri-undefined-behaviour:%s' % mode, what=r['ub'][:900])], replay=dict(kind='miri', mode=mode, seed=seed, count=count)))
            elif r['status'] == 'mismatch':
                col.add(dict(verdict='violated', nontrivial=True, shape='miri:%s:%d' % (mode, seed), sample=sample,
                             violations=[dict(key='miri-workload-mismatch:%s' % mode, what=r['out'][-500:])], replay=dict(kind='miri', mode=mode, seed=seed, count=count)))
            else:
                col.add(dict(verdict='inconclusive', why='Miri shard failed: rc=%s %s' % (r.get('rc'), (r.get('err') or '')[-300:]), sample=sample))
    return dict(miri=dict(selftest='planted out-of-bounds read reported', calls_interpreted=total, modes=list(modes), shards=len(jobs), flags='-Zmiri-disable-isolation (default Stacked Borrows)'))


# Unit tests of the crate under test that Miri cannot run: two fork() tests (foreign function), and the one that drives
# possible_do_files (ouroboros 0.15 drop glue, see the module comment).
UNIT_SKIP = ('jobserver::tests::start_job', 'jobserver::tests::sleep_concurrently_with_job', 'paths::tests::possible_do_files_test')


def unit_tests(col, prop, filters, deadline):
    """The crate's own unit tests (the modules named by `filters`), interpreted by Miri from the harness workspace
    (`cargo miri test -p redo --lib`): their assertions are the oracle, Miri watches the unsafe code they reach
    (RedoPath/RedoPathBuf unchecked conversions, LazyBuf, OsBytes, the interval timer wrapper).  One case per filter."""
    crate, why = ensure()
    if crate is None:
        col.add(dict(verdict='inconclusive', why='Miri layer unavailable: %s' % why))
        return {}
    env = dict(os.environ, CARGO_NET_OFFLINE='true', MIRIFLAGS='-Zmiri-disable-isolation', CARGO_TARGET_DIR=os.path.join(MIRI_DIR, 'target'))
    out = {}
    procs = []
    for flt in filters:
        argv = ['cargo', '+nightly', 'miri', 'test', '--offline', '-p', 'redo', '--lib', '--', flt]
        for sk in UNIT_SKIP:
            argv += ['--skip', sk]
        procs.append((flt, time.time(), subprocess.Popen(argv, cwd=crate, env=env, stdout=subprocess.PIPE, stderr=subprocess.PIPE, text=True)))
        if len(procs) == 1:
            # the first one builds the test harness for the Miri target; let it get ahead
            try:
                procs[0][2].wait(timeout=max(60, min(600, deadline - time.time())))
            except subprocess.TimeoutExpired:
                pass
    for flt, t0, p in procs:
        try:
            so, se = p.communicate(timeout=max(30, deadline - time.time()))
        except subprocess.TimeoutExpired:
            p.kill()
            col.add(dict(verdict='inconclusive', why='Miri unit tests (%s) timed out' % flt, sample=dict(kind='miri-unit', filter=flt)))
            continue
        m = re.search(r'test result: (\w+)\. (\d+) passed; (\d+) failed', so)
        ub = re.search(r'error: Undefined Behavior[^\n]*(?:\n[^\n]*){0,12}', se)
        sample = dict(kind='miri-unit', filter=flt, wall_s=round(time.time() - t0, 1), passed=int(m.group(2)) if m else None)
        if ub:
            col.add(dict(verdict='violated', nontrivial=True, shape='miri-unit:' + flt, sample=sample,
                         violations=[dict(key='miri-undefined-behaviour:unit-tests:%s' % flt, what=ub.group(0)[:900])], replay=dict(kind='miri-unit', filter=flt)))
        elif m and m.group(1) == 'ok' and int(m.group(2)) > 0:
            out[flt] = int(m.group(2))
            col.add(dict(verdict='held', nontrivial=True, shape='miri-unit:' + flt, sample=sample,
                         obs=dict(miri_unit_tests=int(m.group(2)), miri_processes=1), sets=dict(miri_modes=['unit:' + flt])))
        elif m and int(m.group(3)) > 0:
            # an assertion of the crate's own test failed under Miri but not natively: report, it is a behavioural difference
            col.add(dict(verdict='violated', nontrivial=True, shape='miri-unit:' + flt, sample=sample,
                         violations=[dict(key='miri-unit-test-failed:%s' % flt, what=so[-600:])], replay=dict(kind='miri-unit', filter=flt)))
        else:
            col.add(dict(verdict='inconclusive', why='Miri unit tests (%s) did not run: rc=%s %s' % (flt, p.returncode, se[-300:]), sample=sample))
    return out
