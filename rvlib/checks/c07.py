"""C07 - Each target built at most once per run; outcome independent of schedule (twin replay: serial vs scheduled)."""
import copy
import os
import random
import shutil
import sqlite3
import time

from .. import common, gen, histrun
from ..framework import Collector
from ..prog import Program, parse_trace, executed

PROP = 'C07'


def sharing_program(rnd):
    """A graph rich in sharing: leaves requested by many, a shared checksummed and a shared always target."""
    p = Program()
    ns = rnd.randint(2, 4)
    for i in range(ns):
        p.sources['s%d' % i] = dict(r=0, i=0)
    names = []

    def add(n, deps, **kw):
        t = dict(deps=list(deps))
        t.update(kw)
        p.targets[n] = t
        p.dofiles[n + '.do'] = 0
        names.append(n)
    nl = rnd.choice([3, 5, 8, 14])
    for i in range(nl):
        add('leaf%d' % i, [rnd.choice(sorted(p.sources))], head=rnd.random() < 0.3)
    add('shst', [rnd.choice(sorted(p.sources)), 'leaf0'], stamp=True, head=True)
    if rnd.random() < 0.7:
        add('shal', ['leaf%d' % rnd.randrange(nl)], always=True)
    if rnd.random() < 0.5:
        add('shst2', ['shst', 'leaf%d' % rnd.randrange(nl)], stamp=True)
    shared = [n for n in names if n.startswith('sh')]
    nm = rnd.choice([2, 3, 5, 8])
    mids = []
    for i in range(nm):
        deps = rnd.sample(['leaf%d' % k for k in range(nl)], min(nl, rnd.randint(1, 4)))
        deps += [s for s in shared if rnd.random() < 0.7]
        rnd.shuffle(deps)
        add('mid%d' % i, deps, split=rnd.random() < 0.2)
        mids.append('mid%d' % i)
    if rnd.random() < 0.5:
        # a second layer, so that mids are shared as well
        for i in range(rnd.randint(1, 3)):
            add('up%d' % i, rnd.sample(mids, min(len(mids), rnd.randint(2, 4))) + [rnd.choice(shared)])
    tops = [n for n in names if n.startswith('up')] or mids
    add('top', tops + [m for m in mids if rnd.random() < 0.3 and m not in tops])
    p.order = names
    for n in names:
        if rnd.random() < 0.6:
            p.targets[n]['sleep'] = '0.0%d' % rnd.randint(1, 5)
    return p


def chain_program(rnd):
    p = Program()
    p.sources['s0'] = dict(r=0, i=0)
    p.sources['s1'] = dict(r=0, i=0)
    prev = 's0'
    names = []
    depth = rnd.choice([6, 12, 20])
    for i in range(depth):
        n = 'c%d' % i
        t = dict(deps=[prev] + (['s1'] if i % 3 == 0 else []))
        if i and i % 5 == 0:
            t['stamp'] = True
        p.targets[n] = t
        p.dofiles[n + '.do'] = 0
        names.append(n)
        prev = n
    # several consumers of the chain end and of its middle
    for i in range(rnd.randint(2, 6)):
        n = 'k%d' % i
        p.targets[n] = dict(deps=[prev, names[len(names) // 2]])
        p.dofiles[n + '.do'] = 0
        names.append(n)
    p.targets['top'] = dict(deps=[n for n in names if n.startswith('k')])
    p.dofiles['top.do'] = 0
    names.append('top')
    p.order = names
    return p


def fan_program(rnd):
    p = Program()
    p.sources['s0'] = dict(r=0, i=0)
    nl = rnd.choice([20, 40, 60])
    names = []
    for i in range(nl):
        n = 'f%d.d' % i
        p.targets[n] = dict(deps=['s0'], head=(i % 2 == 0))
        names.append(n)
    p.dofiles['default.d.do'] = 0
    for g in range(3):
        n = 'grp%d' % g
        p.targets[n] = dict(deps=[x for i, x in enumerate(names[:nl]) if i % 3 == g or i % 7 == 0])
        p.dofiles[n + '.do'] = 0
        names.append(n)
    p.targets['top'] = dict(deps=['grp0', 'grp1', 'grp2'] + names[:4])
    p.dofiles['top.do'] = 0
    names.append('top')
    p.order = names
    return p


def norm_db(top, this_run=None):
    """Normalised view of the state database: rows keyed by name, run ids mapped to {this, older, none},
    stamps reduced to what does not depend on time and inode numbers, plus 'stamp matches the file now'."""
    src = os.path.join(top, '.redo', 'db.sqlite3')
    tmpd = common.new_dir('db7')
    try:
        for suf in ('', '-wal', '-shm'):
            if os.path.exists(src + suf):
                shutil.copy(src + suf, os.path.join(tmpd, 'db.sqlite3' + suf))
        con = sqlite3.connect(os.path.join(tmpd, 'db.sqlite3'))
        last = con.execute('select max(id) from Runid').fetchone()[0]
        this = this_run or last
        names = {}
        files = {}

        def rid(x):
            return None if x is None else ('this' if x == this else ('older' if x < this else 'newer'))
        for rowid, name, gen_, ov, chk, chg, fl, stamp, csum in con.execute(
                'select rowid,name,is_generated,is_override,checked_runid,changed_runid,failed_runid,stamp,csum from Files'):
            names[rowid] = name
            st = None
            match = None
            if stamp is not None:
                parts = str(stamp).split('+')[0].split('-')
                if len(parts) == 6:
                    st = (parts[1], parts[3], parts[4], parts[5])
                    try:
                        s = os.lstat(os.path.join(top, name))
                        match = ('%.6f' % (s.st_mtime_ns / 1e9) == parts[0] or abs(s.st_mtime_ns / 1e9 - float(parts[0])) < 2e-6) and str(s.st_size) == parts[1] and str(s.st_ino) == parts[2]
                    except OSError:
                        match = False
                else:
                    st = str(stamp)
            files[name] = dict(gen=gen_, ov=ov, changed=rid(chg), failed=rid(fl), stamp=st, stamp_matches_file=match, csum=csum)
        deps = set()
        for t, s, mode, dm in con.execute('select target,source,mode,delete_me from Deps'):
            deps.add((names.get(t), names.get(s), mode, dm))
        integ = con.execute('pragma integrity_check').fetchall()
        con.close()
        return files, deps, integ, last
    finally:
        common.rmtree(tmpd)


def snapshot(hr):
    out = {}
    for n in hr.p.targets:
        out[n] = common.read_file(hr.path(n))
    return out


def override_twice_case(item):
    """all -> w1..wk -> x -> gen, where the user edits the generated file `gen` by hand, rebuilds, and edits it again: in the
    invocation that follows, x (and everything else) is executed at most once however many dependents ask for it, and the
    invocation after that has nothing to do - as in the serial build."""
    import os
    import time as _t
    from .. import scen
    _, seed, j, _sh, _dl, _k = item
    k = 2 + seed % 3
    edits = 2 + (seed // 3) % 2
    tr = scen.TRACE_HDR + 'echo "S $1 $$ $PPID" >&9\n'
    files = {'gen.do': tr + 'echo generated > "$3"\necho "E $1 $$ 0" >&9\n',
             'x.do': tr + 'redo-ifchange gen\ncat gen > "$3"\necho "E $1 $$ 0" >&9\n',
             'all.do': tr + 'redo-ifchange %s\necho "E $1 $$ 0" >&9\n' % ' '.join('w%d' % i for i in range(k))}
    for i in range(k):
        files['w%d.do' % i] = tr + 'redo-ifchange x\ncat x > "$3"\necho "E $1 $$ 0" >&9\n'
    pj = scen.Project(files, 'c07o')
    anoms = []
    obs = dict(override_edit_rounds=1, commands=0, hand_edits_of_a_generated_file=0)
    try:
        def cmd(label, expect_none=False):
            open(pj.trace, 'w').close()
            r, _ = pj.run(['redo-ifchange', 'all'], slots=(j if j > 1 else None))
            obs['commands'] += 1
            if r.status != 'exit' or r.panicked() or r.rc != 0:
                return 'bad'
            ex = [l.split(' ')[1] for l in pj.trace_text().split('\n') if l.startswith('S ')]
            multi = sorted(n for n in set(ex) if ex.count(n) > 1)
            if multi:
                anoms.append(dict(key='multi:after-hand-edits-of-a-generated-dependency', what='%s: executed more than once in one invocation: %s (all: %s)' % (label, multi, ex)))
            elif expect_none and ex:
                anoms.append(dict(key='not-settled:after-hand-edits-of-a-generated-dependency', what='%s: nothing changed since the last invocation, yet %s ran' % (label, ex)))
            return ex
        if cmd('first build') == 'bad':
            return dict(verdict='inconclusive', why='first build failed', sample=dict(item=list(item)))
        for e in range(edits):
            _t.sleep(0.02)
            common.write_file(os.path.join(pj.top, 'gen'), 'edited by hand %d %s\n' % (e, 'x' * (e + 1)))
            obs['hand_edits_of_a_generated_file'] += 1
            if cmd('invocation after hand edit %d' % (e + 1)) == 'bad':
                return dict(verdict='inconclusive', why='build after edit failed', sample=dict(item=list(item)))
            if anoms:
                break
            if cmd('second invocation after hand edit %d' % (e + 1), expect_none=True) == 'bad':
                return dict(verdict='inconclusive', why='repeat failed', sample=dict(item=list(item)))
            if anoms:
                break
        xf = (common.read_file(os.path.join(pj.top, 'w0')) or b'').decode()
        if not anoms and not xf.startswith('edited by hand %d' % (edits - 1)):
            anoms.append(dict(key='stale:after-hand-edits-of-a-generated-dependency', what='w0 holds %r' % xf[:40]))
    finally:
        pj.close()
    res = dict(verdict='violated' if anoms else 'held', nontrivial=obs['hand_edits_of_a_generated_file'] >= 2, shape=common.shash(['override2', k, edits, j]),
               sample=dict(kind='override2', dependents=k, edits=edits, j=j), obs=obs, sets=dict(schedules=['override2:j%d' % j]))
    if anoms:
        res['violations'] = anoms[:2]
        res['replay'] = dict(kind='twin', item=list(item))
    return res


def case(item):
    if item[0] == 'override2':
        return override_twice_case(item)
    kind, seed, j, shuffle, delays, keep = item
    rnd = random.Random(repr((kind, seed)))
    if kind == 'sharing':
        p = sharing_program(rnd)
    elif kind == 'chain':
        p = chain_program(rnd)
    elif kind == 'fan':
        p = fan_program(rnd)
    else:
        prof = gen.profile(ntgt=(8, 16), maxdeps=4, p_stamp=0.25, p_always=0.15, p_flag=(0.15 if keep else 0.0), p_opt=0.0, p_watch=0.1,
                           p_dyn=0.15, p_phony=0.05)
        p = gen.gen_program(rnd, prof)
    pb = copy.deepcopy(p)
    A = histrun.HistRunner(p, tag='c07a')
    B = histrun.HistRunner(pb, tag='c07b', verif_log=True)
    anoms = []
    obs = dict(comparisons=1)
    sets = {}
    sample = dict(kind=kind, seed=seed, j=j, shuffle=shuffle, delays=delays, keep=keep, targets=len(p.targets))
    try:
        # ---- identical pre-history in both sandboxes (serial, so that it is deterministic)
        tops = [n for n in p.order if not any(n in p.curdeps(m) for m in p.targets)] or [p.order[-1]]
        pre = [('build', [rnd.choice(tops)], dict(j=1, keep=False, forced=False))]
        srcs = sorted(p.sources)
        nedit = rnd.randint(0, 3)
        editops = ['edit_r', 'edit_i', 'touch']
        for _ in range(nedit):
            pre.append((rnd.choice(editops), rnd.choice(srcs)))
        if rnd.random() < 0.5:
            pre.append(('build', [rnd.choice(p.order)], dict(j=1, keep=False, forced=False)))
        if rnd.random() < 0.5:
            # (not a checksummed target: redo takes a hand-removed one for "maybe changed" at its first evaluation and for
            #  "changed" at later ones, so which dependents are rebuilt depends on evaluation order even serially - see gen.py)
            cand = [n for n in p.order if not p.targets[n].get('stamp')]
            if cand:
                pre.append(('rm', rnd.choice(cand)))
        if keep:
            fl = [n for n in p.order if p.targets[n].get('flag') is not None]
            if fl:
                pre.append(('flag', rnd.choice(fl), 1))
        for _ in range(rnd.randint(1, 3)):
            pre.append((rnd.choice(editops), rnd.choice(srcs)))
        flip_targets = None
        if rnd.random() < 0.3:
            # a target that recorded a checksum in its last build stops calling redo-stamp (or starts to): built with it in the
            # pre-history, its rule flipped, an input below it edited, so that the compared run rebuilds it the other way
            st = [n for n in p.order if p.targets[n].get('stamp') and p.dependents(n) and any(d in p.sources for d in p.curdeps(n))]
            if st:
                s_ = rnd.choice(st)
                up = rnd.choice(sorted(p.dependents(s_)))
                pre.append(('build', [up], dict(j=1, keep=False, forced=False)))
                pre.append(('stampflip', s_))
                pre.append(('edit_r', rnd.choice([d for d in p.curdeps(s_) if d in p.sources])))
                sets['prehistory_kinds'] = ['stampflip']
                direct = [n for n in p.order if s_ in p.curdeps(n)]
                flip_targets = direct[:4] if len(direct) >= 2 else [up]
        if rnd.random() < 0.25:
            pre = pre[1:]           # sometimes the compared run is the very first build
        for op in pre:
            for hr in (A, B):
                if op[0] == 'build':
                    hr.build(op[1], **op[2])
                else:
                    hr.apply_edit(op)
        # ---- the compared command
        k = 1 if rnd.random() < 0.6 else rnd.randint(2, min(4, len(p.order)))
        targets = [rnd.choice(tops)] if k == 1 else rnd.sample(p.order, k)
        forced = rnd.random() < 0.25 and k == 1
        if flip_targets and rnd.random() < 0.8:
            targets, forced = list(flip_targets), False       # everything that asks for the flipped target directly, in one command
        base = ['redo'] if forced else ['redo-ifchange']
        snapA0, snapB0 = snapshot(A), snapshot(B)
        if snapA0 != snapB0:
            return dict(verdict='inconclusive', why='twins differ before the compared command (pre-history not deterministic)', sample=sample)
        open(A.trace, 'w').close()
        rA = A.redo(base + targets, j=1, keep=keep)
        open(B.trace, 'w').close()
        argvB = base + (['-j%d' % j] if forced and j > 1 else []) + targets
        # a third of the scheduled runs under descheduling injection (redo processes stopped and continued at random)
        stut = (seed if seed % 3 == 0 else None) if isinstance(seed, int) else None
        rB = B.redo(argvB, j=j, keep=keep, shuffle=shuffle, extra_env=({'REDO_VERIF_DELAY': delays} if delays else None), stutter=stut)
        for r, w in ((rA, 'serial'), (rB, 'scheduled')):
            if r.status == 'timeout':
                return dict(verdict='inconclusive', why='watchdog without stuck witness (%s twin)' % w, sample=sample)
            if r.status == 'stuck' or r.panicked():
                return dict(verdict='inconclusive', why='%s twin did not end normally (C09 matter): %s' % (w, common.panic_text(r.err) or r.status), sample=sample)
        exA = executed(parse_trace(common.read_file(A.trace).decode('utf-8', 'replace')))
        exB = executed(parse_trace(common.read_file(B.trace).decode('utf-8', 'replace')))
        obs['scripts_serial'] = sum(exA.values())
        obs['scripts_scheduled'] = sum(exB.values())
        for n, c in sorted(exB.items()):
            if c > 1:
                anoms.append(dict(key='executed-more-than-once:scheduled', what='%s.do ran %d times in one %s' % (n, c, ' '.join(argvB))))
        for n, c in sorted(exA.items()):
            if c > 1:
                anoms.append(dict(key='executed-more-than-once:serial', what='%s.do ran %d times in the serial twin' % (n, c)))
        if (rA.rc == 0) != (rB.rc == 0):
            anoms.append(dict(key='exit-status-differs', what='serial exit %s, scheduled (-j%d%s) exit %s; stderr tail: %s' % (rA.rc, j, ' shuffled' if shuffle else '', rB.rc, rB.err[-300:].replace('\n', ' | '))))
        sets['exit_status_pairs'] = ['%s/%s' % (rA.rc, rB.rc)]
        ok = rA.rc == 0
        # Known finding: with two nested levels of checksummed targets undecided, redo gives up after one out-of-band round and
        # rebuilds the target above them; in a parallel run whether both levels are still undecided depends on the schedule.
        # Targets that only the scheduled run executed are attributed to it if each of them either is such a target
        # (judged from the reference model's state before the command) or depends on one that was rebuilt for that reason.
        only_b = set(exB) - set(exA)
        explained = set()
        if ok and only_b and not (set(exA) - set(exB)):
            try:
                roots = set(n for n in only_b if A.m.rounds_needed(n) >= 2 and A.m.clean_if_fully_settled(n))
            except Exception:
                roots = set()
            explained = set(roots)
            grew = True
            while grew:
                grew = False
                for n in only_b - explained:
                    if set(p.curdeps(n)) & explained or (p.targets[n].get('opt') in explained):
                        explained.add(n)
                        grew = True
            if explained != only_b:
                explained = set()
        if explained:
            anoms.append(dict(key='schedule-dependent-overbuild:nested-checksummed-targets-not-settled-in-one-round',
                              what='only the scheduled run (-j%d) rebuilt %s; contents equal' % (j, sorted(explained))))
            obs['schedule_dependent_overbuilds'] = 1
        if ok or keep:
            sa, sb = snapshot(A), snapshot(B)
            diff = sorted(n for n in sa if sa[n] != sb[n])
            if diff:
                anoms.append(dict(key='contents-differ', what='%s: serial has %r, scheduled has %r (%d targets differ)' % (diff[0], (sa[diff[0]] or b'')[:70], (sb[diff[0]] or b'')[:70], len(diff))))
        if ok:
            if set(exA) != set(exB) and not explained:
                anoms.append(dict(key='executed-set-differs', what='serial ran %s, scheduled ran %s' % (sorted(set(exA) - set(exB)), sorted(set(exB) - set(exA)))))
            fa, da, ia, _ = norm_db(A.top)
            fb, db_, ib, _ = norm_db(B.top)
            if ia != [('ok',)] or ib != [('ok',)]:
                anoms.append(dict(key='integrity-check', what=str((ia, ib))[:200]))
            names = sorted(set(fa) | set(fb))
            for n in names:
                if fa.get(n) != fb.get(n):
                    fields = [k_ for k_ in (fa.get(n) or fb.get(n)) if (fa.get(n) or {}).get(k_) != (fb.get(n) or {}).get(k_)]
                    if n in explained and set(fields) <= {'changed', 'stamp', 'stamp_matches_file'}:
                        continue
                    anoms.append(dict(key='recorded-state-differs:files:%s' % '+'.join(fields), what='Files row %s: serial %s, scheduled %s' % (n, fa.get(n), fb.get(n))))
                    break
            if da != db_:
                anoms.append(dict(key='recorded-state-differs:deps', what='Deps: only serial %s, only scheduled %s' % (sorted(da - db_, key=str)[:4], sorted(db_ - da, key=str)[:4])))
            obs['files_rows_compared'] = len(names)
            obs['deps_rows_compared'] = len(da)
            bad = [(n, f) for n, f in fb.items() if n in exB and f['gen'] and f['stamp_matches_file'] is False and n in p.targets and not p.targets[n].get('phony')]
            if bad:
                anoms.append(dict(key='recorded-stamp-does-not-match-file', what='%s: recorded stamp differs from the file on disk after the scheduled run: %s' % (bad[0][0], bad[0][1:])))
        tr = common.read_file(B.trace).decode('utf-8', 'replace')
        obs['wakeups_with_several_ready'] = sum(1 for l in tr.split('\n') if ' woke ready=[' in l and ',' in l.split('ready=[')[1].split(']')[0])
        obs['lock_waits'] = tr.count(' lock_wait ')
        sets['schedules'] = ['j%d%s%s%s' % (j, '+shuffle' if shuffle else '', '+delays' if delays else '', '+stops' if stut is not None else '')]
        sets['graph_kinds'] = [kind]
        sets['exit'] = ['%s' % rA.rc]
        shared_requests = sum(1 for n in exB if sum(1 for m in p.targets if n in p.curdeps(m)) >= 2)
        obs['executed_targets_with_several_dependents'] = shared_requests
    finally:
        A.close()
        B.close()
    res = dict(verdict='violated' if anoms else 'held', nontrivial=obs.get('scripts_scheduled', 0) >= 3 and j > 1,
               shape=common.shash([p.shape(), j, shuffle, bool(delays), keep, obs.get('scripts_scheduled')]), sample=sample, obs=obs, sets=sets)
    if anoms:
        seen = set()
        res['violations'] = [a for a in anoms if not (a['key'] in seen or seen.add(a['key']))]
        res['replay'] = dict(kind='twin', item=list(item), argv=argvB, pre=[list(o) for o in pre])
    return res


RULE = ('twin replay: the same generated program and the same serial pre-history (builds, source edits, removals, a failing flag) are '
        'replayed in two sandboxes; then one command (redo-ifchange or redo, one or several targets) runs at -j1 in the first and at '
        '-j{2,3,4,8,16}, optionally shuffled, a third of them with redo processes stopped and continued at random, with seeded script durations and delay hooks (between child exit and recording, after locking, '
        'before the blocking lock wait) in the second. Graphs: sharing-rich (leaves with up to 8 dependents, shared checksummed and always '
        'targets, two layers), deep chains with checksummed links and several consumers, fans of 20-60 default-rule leaves under overlapping '
        'groups, random programs. Oracles: no target has more than one S record in the scheduled run (nor in the serial one); exit status '
        'equal (zero / non-zero; the pairs seen are listed); every target file byte-equal; on success the set of executed targets is equal and the normalised database is equal (Files by '
        'name: generated/override flags, failed, checksum, stamp minus mtime/inode, changed run id mapped to this-run/older (the checked mark is a within-run memo no later run can observe and is left out); Deps edge '
        'set with modes) and the recorded stamp of every target executed in the run matches its file on disk. Non-trivial: scheduled run executed >=3 scripts at -j>1. Distinct: '
        'graph shape x schedule parameters x number of scripts. '
        'Hand-edit layer: all -> w1..wk -> x -> gen with the generated file gen edited by hand 2-3 times and a rebuild after each edit (-j1/-j3): in every invocation each '
        'script runs at most once, and the invocation after it runs nothing.')
ASSUME = ['single invocation per project at a time', 'failing builds without --keep-going: only exit status and the at-most-once rule are compared (which siblings ran before the failure is schedule-dependent)',
          'log files and absolute run-id numbers are excluded from the comparison']


def main(tier):
    quick = tier == 'quick'
    rnd = random.Random(common.seed() * 977 + (0 if quick else 3))
    col = Collector(PROP, tier, 'exploration', RULE, ASSUME, floor=20)
    t0 = time.time()
    budget = 110 if quick else 1000
    dl = [None, None, 'after_exit=~30', 'after_exit=~20,after_lock=~10', 'before_wait_lock=~20,after_commit=~10']
    items = []
    n = 150 if quick else 2600
    for i in range(n):
        kind = rnd.choice(['sharing', 'sharing', 'sharing', 'random', 'random', 'chain', 'fan'])
        items.append((kind, rnd.randrange(10 ** 9), rnd.choice([2, 3, 4, 8, 16]), rnd.random() < 0.4, rnd.choice(dl), rnd.random() < 0.2))
    items = [('override2', sd, jj, False, None, False) for sd in range(6 if quick else 24) for jj in (1, 3)] + items
    for r in common.pmap(case, items, procs=8, deadline=t0 + budget):
        col.add(r)
    rc = col.finish()
    common.cleanup_scratch()
    return rc


def replay(path):
    import json
    d = json.load(open(path))
    common.ensure_built()
    it = d['replay']['item']
    r = case(tuple(it))
    from ..framework import replay_result
    return replay_result(PROP, r, path)
