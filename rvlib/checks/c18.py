"""C18 - Build output is logged completely, once, and under the right target."""
import os
import random
import re
import time

from .. import common, scen
from ..framework import Collector

PROP = 'C18'

# a record as redo prints it: may be glued to the end of an unterminated line of the previous writer
REC = re.compile(r'@@REDO:([^:@\n]*):(-?\d+):(\d+(?:\.\d+)?)@@ (.*)$')
SAFE = 'abcdefghijklmnopqrstuvwxyzABCDEFGHIJKLMNOPQRSTUVWXYZ0123456789 _-+=.,:;!?()[]{}<>/|~^&*%$"`\tüé中'
# names no generated project has a target for: a record-shaped line about one of them cannot be a record of redo's
NOT_A_TARGET = re.compile(r'^$|no-such-target|^/nonexistent/|^(\.\./){6}')
LOOKALIKES = ['@@REDO:done:1:1.0@@ hello', '@@REDO:done:7:2.5@@ not-a-number t', '@@REDO:do:1:1.0@@ ', '@@REDO:do:1:1.0@@ no-such-target',
              '@@REDO:unchanged:1:1.0@@ no-such-target', '@@REDO:locked:7:2.5@@ ../../../../../../zz', '@@REDO:waiting:1:1.0@@ /nonexistent/t', '@@REDO:', '@@REDO:do:x:1@@ t', 'mid @@REDO in line', '@@REDO:done:12:zz@@ 0 t', '@@ REDO:do:1:1.0@@ t', '@@REDO:do:1@@ t', '@@redo:do:1:1.0@@ t']


# --------------------------------------------------------------------------- program generation

def gen_graph(rnd, n, outcome):
    """-> (targets: name -> dict(children=[...], segs=[...], lines=[expected stderr lines], rc), order)"""
    names = ['w%d' % i for i in range(n)]
    tg = {}
    for i, nm in enumerate(names):
        # children: later names only (acyclic); every non-root gets a parent below
        tg[nm] = dict(children=[], segs=[], lines=[], rc=0)
    for i in range(1, n):
        parent = names[rnd.randrange(0, i)] if rnd.random() < 0.7 else names[max(0, i - 1 - rnd.randrange(0, min(i, 3)))]
        tg[parent]['children'].append(names[i])
    # a few shared children (requested by two parents)
    for _ in range(n // 5):
        a, b = sorted(rnd.sample(range(n), 2))
        if names[b] not in tg[names[a]]['children']:
            tg[names[a]]['children'].append(names[b])
    failing = None
    if outcome in ('fail', 'sig') and n > 2:
        failing = names[rnd.randrange(1, n)]
        # 'sig': the script is ended by a signal (a crashing tool, the OOM killer, kill): redo records "done -<signal>"
        tg[failing]['rc'] = 3 if outcome == 'fail' else -rnd.choice([9, 15, 11])
    for nm in names:
        t = tg[nm]
        seq = [0]

        def line(payload=None):
            if payload is None:
                k = rnd.choice([0, 1, 3, 8, 20, 60, 200])
                payload = ''.join(rnd.choice(SAFE) for _ in range(k))
            s = '%s#%d %s' % (nm, seq[0], payload)
            seq[0] += 1
            return s
        kids = list(t['children'])
        rnd.shuffle(kids)
        groups = []
        while kids:
            k = rnd.randint(1, min(3, len(kids)))
            groups.append(kids[:k])
            kids = kids[k:]
        nseg = rnd.randint(1, 4) + len(groups)
        plan = ['dep'] * len(groups) + ['out'] * (nseg - len(groups))
        rnd.shuffle(plan)
        gi = 0
        for p in plan:
            if p == 'dep':
                if rnd.random() < 0.3:
                    # a second process of the script (a progress meter, a compiler in the background) writes lines to the same
                    # log while the redo-ifchange the script started writes its records into it
                    # (it writes until the redo-ifchange has returned; how many lines that were is left in a file)
                    cap = 20000
                    first = seq[0]
                    seq[0] += cap
                    k = sum(1 for s_ in t['segs'] if s_[0] == 'depnoise')
                    t['segs'].append(('depnoise', groups[gi], first, cap, k))
                    t['lines'].append(('noise', first, k))
                else:
                    t['segs'].append(('dep', groups[gi]))
                gi += 1
                continue
            kind = rnd.choices(['lines', 'partial', 'long', 'look', 'empty', 'burst'], [6, 3, 1, 2, 1, 1])[0]
            if kind == 'lines':
                ls = [line() for _ in range(rnd.randint(1, 6))]
                t['segs'].append(('lines', ls))
                t['lines'] += ls
            elif kind == 'partial':
                full = line(''.join(rnd.choice(SAFE[:62]) for _ in range(rnd.randint(6, 40))))
                k = rnd.randint(2, 5)
                cuts = sorted(rnd.sample(range(1, len(full)), min(k - 1, len(full) - 1)))
                pieces = [full[a:b] for a, b in zip([0] + cuts, cuts + [len(full)])]
                t['segs'].append(('partial', pieces, rnd.choice([0.02, 0.05, 0.12])))
                t['lines'].append(full)
            elif kind == 'long':
                nbytes = rnd.choice([5000, 70000, 100000])
                pre = line('long')
                t['segs'].append(('long', pre, nbytes))
                t['lines'].append(pre + 'x' * nbytes)
            elif kind == 'look':
                la = rnd.choice(LOOKALIKES)
                if la.startswith('@@REDO') or la.startswith('@@ ') or la.startswith('@@redo'):
                    s = la              # at the start of a line, verbatim (no id: it must survive as it is)
                    t['segs'].append(('lines', [s]))
                    t['lines'].append(s)
                else:
                    s = line(la)
                    t['segs'].append(('lines', [s]))
                    t['lines'].append(s)
            elif kind == 'empty':
                ls = [line(), '', line()]
                t['segs'].append(('lines', ls))
                t['lines'] += ls
            else:
                cnt = rnd.choice([50, 200])
                first = seq[0]
                seq[0] += cnt
                t['segs'].append(('burst', first, cnt))
                t['lines'] += ['%s#%d b' % (nm, first + i) for i in range(cnt)]
        if nm == names[0] and rnd.random() < 0.4 and outcome == 'ok':
            # the root force-rebuilds one extra child twice in a row: the second build starts while a reader may still be in
            # the log of the first one, whose last lines come late (just before the script ends)
            t['segs'].append(('redo2', 'rb'))
            pad = ''.join(rnd.choice(SAFE[:62]) for _ in range(30))
            inst = lambda i: ['rb#0 build%d start' % i, 'rb#1 build%d %s' % (i, pad), 'rb#2 build%d late-1' % i, 'rb#3 build%d late-2' % i, 'rb#4 build%d late-3' % i]
            tg['rb'] = dict(children=[], segs=[('rb', pad, rnd.choice([0.8, 1.2, 1.6]))], lines=inst(1), lines2=inst(2), rc=0, times=2)
        if rnd.random() < 0.25 and t['rc'] == 0:
            # the last line stays unterminated
            s = line('unterminated-tail')
            t['segs'].append(('tail', s))
            t['lines'].append(s)
    if 'rb' in tg:
        names = names + ['rb']
    return tg, names


def sh_quote(s):
    return "'" + s.replace("'", "'\\''") + "'"


def script(nm, t):
    out = [scen.TRACE_HDR + 'echo "S $1 $$ $PPID" >&9']
    for seg in t['segs']:
        if seg[0] == 'dep':
            out.append('redo-ifchange %s' % ' '.join(seg[1]))
        elif seg[0] == 'depnoise':
            out.append(': > "$1.ngo%d"' % seg[4])
            out.append('( i=%d; while [ -e "$1.ngo%d" ] && [ $i -lt %d ]; do echo "%s#$i n" >&2; i=$((i+1)); done; echo $i > "$1.ncnt%d" ) &'
                       % (seg[2], seg[4], seg[2] + seg[3], nm, seg[4]))
            out.append('rc=0; redo-ifchange %s || rc=$?' % ' '.join(seg[1]))
            out.append('rm -f "$1.ngo%d"; wait; [ $rc = 0 ] || exit $rc' % seg[4])
        elif seg[0] == 'lines':
            for l in seg[1]:
                out.append("printf '%%s\\n' %s >&2" % sh_quote(l))
        elif seg[0] == 'partial':
            for i, p in enumerate(seg[1]):
                last = i == len(seg[1]) - 1
                out.append("printf '%%s%s' %s >&2" % ('\\n' if last else '', sh_quote(p)))
                if not last:
                    out.append('sleep %s' % seg[2])
        elif seg[0] == 'long':
            out.append("{ printf '%%s' %s; head -c %d /dev/zero | tr '\\0' x; echo; } >&2" % (sh_quote(seg[1]), seg[2]))
        elif seg[0] == 'burst':
            out.append('i=%d; while [ $i -lt %d ]; do echo "%s#$i b" >&2; i=$((i+1)); done' % (seg[1], seg[1] + seg[2], nm))
        elif seg[0] == 'tail':
            out.append("printf '%%s' %s >&2" % sh_quote(seg[1]))
        elif seg[0] == 'redo2':
            out.append('echo 1 > %s.inst\nredo %s\necho 2 > %s.inst\nredo %s' % (seg[1], seg[1], seg[1], seg[1]))
        elif seg[0] == 'rb':
            # the two builds write different lines (else a reader that slips from the first log into the second goes unnoticed)
            out.append('read i < rb.inst\necho "rb#0 build$i start" >&2\necho "rb#1 build$i %s" >&2\nsleep %s\n'
                       'echo "rb#2 build$i late-1" >&2\necho "rb#3 build$i late-2" >&2\necho "rb#4 build$i late-3" >&2' % (seg[1], seg[2]))
    if t['rc'] < 0:
        out.append('echo "E $1 $$ %d" >&9\nkill -%d $$\nsleep 5' % (t['rc'], -t['rc']))
    elif t['rc']:
        out.append('echo "E $1 $$ %d" >&9\nexit %d' % (t['rc'], t['rc']))
    else:
        out.append('echo "%s" > "$3"\necho "E $1 $$ 0" >&9' % nm)
    return '\n'.join(out) + '\n'


# --------------------------------------------------------------------------- the monitor: attribute a raw stream

def attribute(stream, cwd_rel=''):
    """-> (per target: list of lines, structural records list, problems)"""
    per = {}
    recs = []
    problems = []
    cur = None
    open_ = []
    lines = stream.split('\n')
    if lines and lines[-1] == '':
        lines.pop()
    for ln in lines:
        # find a parsable record at any offset
        m = None
        pos = 0
        while True:
            i = ln.find('@@REDO:', pos)
            if i < 0:
                break
            mm = REC.match(ln[i:])
            if mm:
                m = (i, mm)
                break
            pos = i + 1
        if m is None:
            if cur is None:
                problems.append('text outside any target: %r' % ln[:80])
            else:
                per.setdefault(cur, []).append(ln)
            continue
        i, mm = m
        if i > 0:
            if cur is None:
                problems.append('text outside any target: %r' % ln[:80])
            else:
                per.setdefault(cur, []).append(ln[:i])
        kind, pid, ts, text = mm.group(1), int(mm.group(2)), float(mm.group(3)), mm.group(4)
        if (kind == 'done' and not re.match(r'^-?\d+ ', text + ' ')) or (kind in ('do', 'waiting', 'locked', 'unlocked', 'unchanged') and NOT_A_TARGET.search(text)):
            # has the shape of a record, but no record redo writes looks like this (a "done" without exit status, a record about
            # something that is not a target of the project): a line of the script
            if cur is None:
                problems.append('text outside any target: %r' % ln[:80])
            else:
                per.setdefault(cur, []).append(ln[i:])
            continue
        if kind in ('do', 'resumed') and text:
            text = os.path.normpath(text)       # the viewer prints "resumed sub/../mid" but "do mid"
        recs.append((kind, text))
        # How the follower works (src/bin/redo/log.rs): it reads the log of a target T; at a do/locked/waiting
        # record about X it prints "do X" (once per X), shows X's log recursively and returns to T's log; before
        # the next text line of T it prints "resumed T" if anything was printed in between; "done" records are
        # copied from the log of whoever built X (possibly much later than X's content) and do not switch the
        # writer.  (Before fix "say whose output an unterminated last line is" T's unterminated last line was
        # flushed without that marker; now every switch of the writer is marked, so only do/resumed count.)
        if kind == 'do':
            open_.append(text)
            cur = text
            per.setdefault(cur, [])
        elif kind == 'resumed':
            cur = text
        elif kind == 'done':
            sp = text.split(' ', 1)
            name = os.path.normpath(sp[1]) if len(sp) == 2 and sp[1] else ''
            if name in open_:
                open_.remove(name)
        # locked / waiting / unlocked / unchanged / check...: no change of writer
    return per, recs, problems


def compare(what, per, recs, tg, ran, top, is_replay, structure=True):
    anoms = []
    for nm in sorted(ran):
        want = [l.rstrip() for l in tg[nm]['lines']]
        got = [l.rstrip() for l in per.get(nm, [])]
        # a target that was force-rebuilt k times in the run: the viewer shows a target's log once (the build it met first) and a
        # replay shows the last build; either way every shown build must be complete
        if got == want and not (is_replay and 'lines2' in tg[nm]):
            continue
        if 'lines2' in tg[nm]:
            w2 = [l.rstrip() for l in tg[nm]['lines2']]
            if (is_replay and got in (w2, want + w2)) or (not is_replay and got == want + w2):
                continue
            if not is_replay and got == w2:
                # the viewer got to this target's log only after the second build of the same run had replaced it (one log per
                # target): the first build's lines are never shown live.  By design, and a loss by the letter of C18: keyed.
                anoms.append(dict(key='%s:lines-of-an-earlier-build-in-the-same-run-not-shown' % what,
                                  what='%s was force-rebuilt twice in this run; the live output shows the second build only (%d lines of the first build are not shown)' % (nm, len(want))))
                continue
        # describe the first difference
        k = next((i for i, (a, b) in enumerate(zip(got, want)) if a != b), min(len(got), len(want)))
        gs, ws = set(got), set(want)
        if len(got) > len(want) and all(g in ws for g in got) and len(set(got)) < len(got):
            cls = 'duplicated'
        elif len(got) < len(want) and all(g in ws for g in got):
            cls = 'lost'
        elif sorted(got) == sorted(want):
            cls = 'reordered'
        else:
            cls = 'altered'
        anoms.append(dict(key='%s:lines-%s' % (what, cls),
                          what='%s of %s: line %d is %r, script wrote %r (%d lines shown under the target, %d written)'
                               % (what, nm, k, (got[k] if k < len(got) else None) and got[k][:90], (want[k] if k < len(want) else None) and want[k][:90], len(got), len(want))))
        break
    for nm in sorted(set(per) - set(tg)):
        if per[nm]:
            anoms.append(dict(key='%s:lines-under-unknown-target' % what, what='%r has lines %r' % (nm, per[nm][:2])))
    # lines of one target under another one
    owner = {}
    for nm in tg:
        for l in tg[nm]['lines'] + tg[nm].get('lines2', []):
            if '#' in l:
                owner[l.rstrip()] = nm
    for nm, ls in per.items():
        for l in ls:
            o = owner.get(l.rstrip())
            if o is not None and o != nm:
                anoms.append(dict(key='%s:line-under-wrong-target' % what, what='%r written by %s appears under %s' % (l[:80], o, nm)))
                break
    if not structure:
        return anoms
    # structure: one do and one done (with the script's status) per executed target
    dos = {}
    dones = {}
    for kind, text in recs:
        if kind == 'do':
            dos[text] = dos.get(text, 0) + 1
        elif kind == 'done':
            sp = text.split(' ', 1)
            if len(sp) == 2:
                dones.setdefault(sp[1], []).append(sp[0])
    for nm in sorted(ran):
        if dos.get(nm, 0) != 1 and not (tg[nm].get('times', 1) > 1 and dos.get(nm, 0) in (1, tg[nm]['times'])):
            anoms.append(dict(key='%s:do-record-count' % what, what='%d "do" records for %s' % (dos.get(nm, 0), nm)))
        exp_done = [str(tg[nm]['rc'] if tg[nm]['rc'] else (0 if nm in ran and ran[nm] == 0 else ran[nm]))] * (1 if is_replay else tg[nm].get('times', 1))
        got_done = dones.get(nm, [])
        if is_replay and nm == top:
            continue        # the replay ends before the outermost done record
        if tg[nm].get('times', 1) > 1:
            # done records are copied from the parent's log, which has one per build, however many builds the viewer showed
            if not got_done or any(x != exp_done[0] for x in got_done) or len(got_done) > tg[nm]['times']:
                anoms.append(dict(key='%s:done-record' % what, what='"done" records for %s: %s, expected 1-%d times status %s' % (nm, got_done, tg[nm]['times'], exp_done[0])))
            continue
        if got_done != exp_done:
            anoms.append(dict(key='%s:done-record' % what, what='"done" records for %s: %s, expected status %s' % (nm, got_done, exp_done)))
    return anoms


def case(item):
    _, n, j, outcome, cmd, seed = item
    rnd = random.Random(repr(item))
    tg, names = gen_graph(rnd, n, outcome)
    files = {nm + '.do': script(nm, tg[nm]) for nm in names}
    pj = scen.Project(files, 'c18')
    os.makedirs(os.path.join(pj.top, 'sub'))
    anoms = []
    obs = dict(builds=1)
    sets = {}
    top = names[0]
    try:
        extra = {'REDO_PRETTY': '0'}
        if cmd == 'redo':
            r, _ = pj.run(['redo'] + (['-j%d' % j] if j > 1 else []) + [top], extra=extra, timeout=120, verif_log=False)
        else:
            r, _ = pj.run(['redo-ifchange', top], extra=extra, slots=(j if j > 1 else None), timeout=120, verif_log=False)
        pt = common.panic_text(r.err) or ''
        if r.status == 'exit' and re.search(r'panicked at [^\s]*(bin/redo/log\.rs|logs\.rs)', pt):
            # the viewer (or the log record parser it uses) died: everything it had still to show is lost
            res = dict(verdict='violated', nontrivial=True, shape=common.shash(list(item)), sample=dict(kind='build', item=list(item)), obs=obs, sets=sets,
                       violations=[dict(key='live:viewer-panicked', what='the log viewer of %s panicked: %s' % (cmd, pt[:300]))], replay=dict(kind='build', item=list(item)))
            return res
        if r.status != 'exit' or r.panicked():
            return dict(verdict='inconclusive', why='build did not end normally (C09 matter): %s' % (common.panic_text(r.err) or r.status), sample=dict(item=list(item)))
        # which scripts ran, and how they ended (from the trace the scripts write themselves)
        ran = {}
        started = set()
        for l in pj.trace_text().split('\n'):
            f = l.split(' ')
            if f[0] == 'S':
                started.add(f[1])
            elif f[0] == 'E' and len(f) >= 4:
                ran[f[1]] = int(f[3])
        for nm in started - set(ran):
            ran[nm] = 1      # stopped by sh -e after a failing redo-ifchange: status 1... taken from the record below
        # a script stopped by `sh -e` (failed dependency) did not write all its lines: only judge complete ones
        complete = {nm: rc for nm, rc in ran.items() if nm in started and (rc == 0 or tg[nm]['rc'] == rc) and _complete(tg, nm, ran)}
        if (r.rc == 0) != (outcome == 'ok'):
            return dict(verdict='inconclusive', why='unexpected exit status %s for outcome %s: %s' % (r.rc, outcome, r.err[-200:]), sample=dict(item=list(item)))
        for nm in list(tg):
            if any(isinstance(l, tuple) for l in tg[nm]['lines']):
                new, okn = [], True
                for l in tg[nm]['lines']:
                    if not isinstance(l, tuple):
                        new.append(l)
                        continue
                    b = common.read_file(os.path.join(pj.top, '%s.ncnt%d' % (nm, l[2])))
                    if b is None or not b.strip().isdigit():
                        okn = False
                        continue
                    new += ['%s#%d n' % (nm, i) for i in range(l[1], int(b))]
                    obs['concurrent_writer_lines'] = obs.get('concurrent_writer_lines', 0) + int(b) - l[1]
                tg[nm]['lines'] = new
                if not okn:
                    complete.pop(nm, None)
        per, recs, problems = attribute(r.err)
        obs['live_lines_attributed'] = sum(len(v) for v in per.values())
        obs['records_seen'] = len(recs)
        obs['lines_written'] = sum(len(tg[nm]['lines']) for nm in complete)
        obs['targets_judged'] = len(complete)
        for p_ in (problems[:1] if cmd == 'redo' else []):
            anoms.append(dict(key='live:text-outside-target', what=p_))
        if cmd == 'redo':
            # (a top-level redo-ifchange always renders its live output in pretty mode: presentation, not compared)
            anoms += compare('live', per, recs, tg, complete, top, False)
            obs['live_streams_compared'] = 1
        # replay afterwards
        r2, _ = pj.run(['redo-log', '-r', '--no-pretty', top], verif_log=False, timeout=120)
        if r2.rc != 0:
            anoms.append(dict(key='replay:nonzero', what='redo-log -r exits %s: %s' % (r2.rc, r2.err[-200:])))
        else:
            per2, recs2, problems2 = attribute(r2.out)
            obs['replay_lines_attributed'] = sum(len(v) for v in per2.values())
            for p_ in problems2[:1]:
                anoms.append(dict(key='replay:text-outside-target', what=p_))
            anoms += compare('replay', per2, recs2, tg, complete, top, True)
        # a second replay from another working directory: names are relative to it
        r3, _ = pj.run(['redo-log', '-r', '--no-pretty', '../' + top], cwd=os.path.join(pj.top, 'sub'), verif_log=False, timeout=120)
        if r3.rc == 0:
            per3, recs3, _p = attribute(r3.out)
            per3 = {os.path.normpath(os.path.join('sub', k)): v for k, v in per3.items()}
            anoms += compare('replay-other-cwd', per3, [], tg, complete, top, True, structure=False)
            obs['replays_from_other_cwd'] = 1
        sets['segments'] = sorted(set(s[0] for nm in complete for s in tg[nm]['segs']))
        sets['jobs'] = ['j%d' % j]
        sets['record_kinds'] = sorted(set(k for k, _ in recs))
    finally:
        pj.close()
    res = dict(verdict='violated' if anoms else 'held', nontrivial=obs.get('targets_judged', 0) >= 2 and obs.get('lines_written', 0) >= 5,
               shape=common.shash(list(item)), sample=dict(kind='build', targets=n, j=j, outcome=outcome, cmd=cmd, lines=obs.get('lines_written')), obs=obs, sets=sets)
    if anoms:
        seen = set()
        res['violations'] = [a for a in anoms if not (a['key'] in seen or seen.add(a['key']))]
        res['replay'] = dict(kind='build', item=list(item))
    return res


def _complete(tg, nm, ran):
    """Did the script of nm get through all its segments?  (A failed child stops it under sh -e.)"""
    for seg in tg[nm]['segs']:
        if seg[0] == 'redo2' and ran.get(seg[1], 0) != 0:
            return False
        if seg[0] in ('dep', 'depnoise'):
            for c in seg[1]:
                if ran.get(c, 0) != 0 or not _complete(tg, c, ran):
                    return False
    return True


def subdir_case(item):
    """Targets in sub-directories built by a rule of a parent directory, with a checksummed target below them: the rebuild goes
    through the out-of-band path, whose records must name targets relative to the right directory (the viewer resolves them
    against the directory of the target whose log it reads)."""
    _, j, depth, seed = item
    sub = '/'.join(['sub', 'deep'][:depth])
    files = {
        'default.d.do': scen.TRACE_HDR + 'echo "S $1 $$ $PPID" >&9\necho "$2#0 start" >&2\nredo-ifchange mid other.leaf\necho "$2#1 after" >&2\ncat mid > $3\necho "E $1 $$ 0" >&9\n',
        'mid.do': scen.TRACE_HDR + 'echo "S $1 $$ $PPID" >&9\necho "mid#0" >&2\nredo-ifchange st\necho "mid#1" >&2\ncat st > $3\necho "E $1 $$ 0" >&9\n',
        'st.do': scen.TRACE_HDR + 'echo "S $1 $$ $PPID" >&9\necho "st#0" >&2\nredo-ifchange src\nhead -c 2 src > $3\necho "st#1" >&2\nredo-stamp < $3\necho "E $1 $$ 0" >&9\n',
        'default.leaf.do': scen.TRACE_HDR + 'echo "S $1 $$ $PPID" >&9\necho "$2#0 leaf" >&2\necho leaf > $3\necho "E $1 $$ 0" >&9\n',
        'src': 'a1\n', sub + '/keep': 'x\n'}
    pj = scen.Project(files, 'c18s')
    anoms = []
    obs = dict(builds=0)
    t = sub + '/x.d'
    want = {sub + '/x': None}
    try:
        extra = {'REDO_PRETTY': '0'}
        for phase, content in (('first', None), ('changed', 'b2\n'), ('same-checksum', 'b2 other\n'), ('forced-changed', 'c3\n'), ('forced-same-checksum', 'c3 other\n')):
            if content is not None:
                common.write_file(os.path.join(pj.top, 'src'), content)
                os.utime(os.path.join(pj.top, 'src'), ns=(int(time.time() * 1e9) + (5 + obs['builds']) * 10 ** 9,) * 2)
            open(pj.trace, 'w').close()
            if phase.startswith('forced'):
                # the target's own script runs (forced) and finds its dependency only "maybe dirty": the out-of-band round now
                # happens inside a process whose REDO_TARGET lies in the sub-directory
                r, _ = pj.run(['redo'] + (['-j%d' % j] if j > 1 else []) + [t], extra=extra, timeout=60, verif_log=False)
            else:
                r, _ = pj.run(['redo-ifchange', t], extra=extra, slots=(j if j > 1 else None), timeout=60, verif_log=False)
            obs['builds'] += 1
            text = r.err + r.out
            if r.status != 'exit' or r.panicked():
                return dict(verdict='inconclusive', why='build did not end normally (C09 matter)', sample=dict(item=list(item)))
            if r.rc != 0:
                anoms.append(dict(key='subdir:%s:build-failed' % phase, what=text[-300:]))
                break
            if re.search(r'redo-log: .*not known to redo|redo-log: .*[Ee]rror|failed to start redo-log', text):
                anoms.append(dict(key='subdir:%s:viewer-error' % phase, what='the log viewer gave up during redo-ifchange %s: %s' % (t, [l for l in text.split('\n') if 'redo-log' in l][:2])))
            ran = [l.split(' ')[1] for l in pj.trace_text().split('\n') if l.startswith('S ')]
            r2, _ = pj.run(['redo-log', '-r', '--no-pretty', t], verif_log=False, timeout=60)
            if r2.rc != 0:
                anoms.append(dict(key='subdir:%s:replay-nonzero' % phase, what='redo-log -r %s exits %s: %s' % (t, r2.rc, (r2.err + r2.out)[-300:])))
                continue
            per, recs, problems = attribute(r2.out)
            exp = {t: [sub + '/x#0 start', sub + '/x#1 after'], 'mid': ['mid#0', 'mid#1'], 'st': ['st#0', 'st#1'], 'other.leaf': ['other#0 leaf']}
            per = {os.path.normpath(k): v for k, v in per.items()}
            # live (pretty) stream: every line of every script that ran appears exactly once
            live_lines = [l.strip() for l in text.split('\n')]
            for n in ran:
                for l in exp.get(n, []):
                    if live_lines.count(l) != 1:
                        anoms.append(dict(key='subdir:%s:live-line-count' % phase, what='%r (written by %s) appears %d times in the live output of redo-ifchange %s'
                                          % (l, n, live_lines.count(l), t)))
            # replay of the requested target: what it shows is complete and under the right name; the target itself is there.
            # (A checksummed target brought up to date out of band is logged by the top-level command, not in this target's log.)
            for n, got in per.items():
                got = [l.rstrip() for l in got]
                if n in exp and n in ran and got != exp[n]:
                    anoms.append(dict(key='subdir:%s:lines' % phase, what='replay of %s after the %s build: %s shown under %r, script wrote %s' % (t, phase, got, n, exp[n])))
                if n not in exp and got:
                    anoms.append(dict(key='subdir:%s:unknown-name' % phase, what='replay shows lines %s under %r' % (got[:2], n)))
            if t in ran and [l.rstrip() for l in per.get(t, [])] != exp[t]:
                anoms.append(dict(key='subdir:%s:target-lines' % phase, what='replay of %s: %s, script wrote %s' % (t, per.get(t), exp[t])))
            obs['subdir_lines_attributed'] = obs.get('subdir_lines_attributed', 0) + sum(len(v) for v in per.values())
    finally:
        pj.close()
    res = dict(verdict='violated' if anoms else 'held', nontrivial=obs['builds'] >= 3, shape=common.shash(list(item)),
               sample=dict(kind='subdir-out-of-band', j=j, depth=depth), obs=dict(obs, subdir_cases=1), sets=dict(segments=['subdir-out-of-band']))
    if anoms:
        seen = set()
        res['violations'] = [a for a in anoms if not (a['key'] in seen or seen.add(a['key']))]
        res['replay'] = dict(kind='subdir', item=list(item))
    return res


# --------------------------------------------------------------------------- direct round trips of the record type

KINDS = ['do', 'done', 'unchanged', 'waiting', 'locked', 'unlocked', 'resumed', 'check', 'checked', 'error', 'warning', 'debug']


def spelled_case(item):
    """One dependency that writes to stderr, asked for by two scripts in different directories through different spellings of its
    name (x from the top, ../x / an absolute path / a detour from sub/), the second request arriving while the dependency is being
    built (a `locked` record) or after it is done: the viewer shows its lines once, under its own name, live and in the replay."""
    _, spell, when, first, j, seed = item
    files = {
        'x.do': scen.TRACE_HDR + 'echo "S $1 $$ $PPID" >&9\necho "x#0 begin" >&2\nsleep 0.4\necho "x#1 end" >&2\necho x > "$3"\necho "E $1 $$ 0" >&9\n',
        'a.do': scen.TRACE_HDR + 'echo "S $1 $$ $PPID" >&9\necho "a#0" >&2\nredo-ifchange x\necho "a#1" >&2\necho a > "$3"\necho "E $1 $$ 0" >&9\n',
        'sub/b.do': scen.TRACE_HDR + 'echo "S $1 $$ $PPID" >&9\necho "sub/b#0" >&2\nsleep %s\nredo-ifchange "%s"\necho "sub/b#1" >&2\necho b > "$3"\necho "E $1 $$ 0" >&9\n'
                    % ('0.15' if when == 'during' else '0.7', spell),
    }
    order = 'a sub/b' if first == 'a' else 'sub/b a'
    files['all.do'] = scen.TRACE_HDR + 'echo "S $1 $$ $PPID" >&9\necho "all#0" >&2\nredo-ifchange %s\necho "all#1" >&2\necho all > "$3"\necho "E $1 $$ 0" >&9\n' % order
    pj = scen.Project(files, 'c18p')
    anoms = []
    obs = dict(builds=0, spelled_cases=1)
    exp = {'x': ['x#0 begin', 'x#1 end'], 'a': ['a#0', 'a#1'], 'sub/b': ['sub/b#0', 'sub/b#1'], 'all': ['all#0', 'all#1']}
    try:
        os.symlink('.', os.path.join(pj.top, 'same'))          # a second name of the top directory
        for f in list(files):
            if '$TOP' in files[f]:
                common.write_file(os.path.join(pj.top, f), files[f].replace('$TOP', pj.top))
        r, _ = pj.run(['redo', '-j%d' % j, 'all'], extra={'REDO_PRETTY': '0'}, timeout=60, verif_log=False)
        obs['builds'] += 1
        text = r.err + r.out
        if r.status != 'exit' or r.panicked():
            return dict(verdict='inconclusive', why='build did not end normally (C09 matter)', sample=dict(item=list(item)))
        if r.rc != 0:
            anoms.append(dict(key='spelled:build-failed', what=text[-300:]))
        met_locked = '@@REDO:locked:' in pj.logs_text() or '@@REDO:waiting:' in pj.logs_text()
        obs['spelled_requests_that_met_the_lock'] = 1 if met_locked else 0
        r2, _ = pj.run(['redo-log', '-r', '--no-pretty', 'all'], verif_log=False, timeout=60)
        streams = [('live', text)]
        if r2.rc == 0:
            streams.append(('replay', r2.out))
        else:
            anoms.append(dict(key='spelled:replay-nonzero', what='redo-log -r all exits %s: %s' % (r2.rc, (r2.err + r2.out)[-300:])))
        for what, stream in streams:
            lines = [l.rstrip() for l in stream.split('\n')]
            for n, ls in exp.items():
                for l in ls:
                    c = sum(1 for g in lines if g == l or g.endswith('@@ ' + l))
                    if c != 1:
                        anoms.append(dict(key='%s:line-count:dependency-reached-through-two-spellings' % what,
                                          what='%r (written once by %s) appears %d times in the %s output; second request spelled %r, %s the build of x, %s shown first'
                                               % (l, n, c, what, spell, when, first)))
            per, recs, problems = attribute(stream)
            per = {os.path.normpath(k): [g.rstrip() for g in v] for k, v in per.items()}
            for n, got in per.items():
                for g in got:
                    m = re.match(r'^(\S+)#\d', g)
                    if m and m.group(1) != n and not anoms:
                        anoms.append(dict(key='%s:line-under-wrong-target:dependency-reached-through-two-spellings' % what,
                                          what='%r is shown under %r (second request spelled %r, %s the build of x)' % (g, n, spell, when)))
            obs['spelled_lines_attributed'] = obs.get('spelled_lines_attributed', 0) + sum(len(v) for v in per.values())
    finally:
        pj.close()
    res = dict(verdict='violated' if anoms else 'held', nontrivial=True, shape=common.shash(list(item)),
               sample=dict(kind='dependency-through-two-spellings', spelling=spell, when=when, first=first, j=j), obs=obs,
               sets=dict(segments=['two-spellings:' + when]))
    if anoms:
        seen = set()
        res['violations'] = [a for a in anoms if not (a['key'] in seen or seen.add(a['key']))]
        res['replay'] = dict(kind='spelled', item=list(item))
    return res


def oddname_case(item):
    """Targets whose names end or begin with white space (or contain it): the records that name them survive the viewer's
    re-parsing - lines stay under the right name, the viewer does not stop, live and in the replay."""
    _, j, seed = item
    names = ['trail ', 'tab\t', ' lead', 'in ner', 'two  ', 'ü ']
    files = {}
    for i, n in enumerate(names):
        files[n + '.do'] = scen.TRACE_HDR + 'echo "S $1 $$ $PPID" >&9\necho "odd%d#0 begin" >&2\necho "odd%d#1 end" >&2\necho x > "$3"\necho "E $1 $$ 0" >&9\n' % (i, i)
    files['all.do'] = scen.TRACE_HDR + 'echo "S $1 $$ $PPID" >&9\necho "all#0" >&2\nredo-ifchange %s\necho "all#1" >&2\necho all > "$3"\necho "E $1 $$ 0" >&9\n' % ' '.join(sh_quote(n) for n in names)
    pj = scen.Project(files, 'c18n')
    anoms = []
    obs = dict(builds=1, odd_name_cases=1)
    try:
        r, _ = pj.run(['redo', '-j%d' % j, 'all'], extra={'REDO_PRETTY': '0'}, timeout=60, verif_log=False)
        text = r.err + r.out
        if r.status != 'exit' or r.panicked():
            return dict(verdict='inconclusive', why='build did not end normally (C09 matter)', sample=dict(item=list(item)))
        if r.rc != 0:
            anoms.append(dict(key='oddname:build-failed', what=text[-300:]))
        if re.search(r'redo-log: .*not known to redo|redo-log: .*[Ee]rror|failed to start redo-log', text):
            anoms.append(dict(key='live:viewer-error:names-with-outer-white-space', what='the log viewer gave up: %s' % [l for l in text.split('\n') if 'redo-log' in l][:2]))
        r2, _ = pj.run(['redo-log', '-r', '--no-pretty', 'all'], verif_log=False, timeout=60)
        streams = [('live', text)]
        if r2.rc == 0:
            streams.append(('replay', r2.out))
        else:
            anoms.append(dict(key='replay:viewer-error:names-with-outer-white-space', what='redo-log -r all exits %s: %s' % (r2.rc, (r2.err + r2.out)[-300:])))
        for what, stream in streams:
            per, recs, problems = attribute(stream)
            for i, n in enumerate(names):
                want = ['odd%d#0 begin' % i, 'odd%d#1 end' % i]
                got = [g.rstrip() for g in per.get(n, [])]
                if got != want and not any(a['key'].startswith(what) for a in anoms):
                    under = [k for k, v in per.items() if any(('odd%d#' % i) in g for g in v)]
                    anoms.append(dict(key='%s:lines-under-wrong-name:names-with-outer-white-space' % what,
                                      what='target %r wrote %s; the %s output shows %s under that name (its lines appear under %r)' % (n, want, what, got, under)))
            obs['odd_lines_attributed'] = obs.get('odd_lines_attributed', 0) + sum(len(v) for v in per.values())
    finally:
        pj.close()
    res = dict(verdict='violated' if anoms else 'held', nontrivial=True, shape=common.shash(list(item)),
               sample=dict(kind='names-with-outer-white-space', j=j), obs=obs, sets=dict(segments=['odd-names']))
    if anoms:
        res['violations'] = anoms[:4]
        res['replay'] = dict(kind='oddname', item=list(item))
    return res


def partial_case(item):
    """A script writes a piece of a line (no newline yet) and then asks for a dependency that has to be built: the record of the
    nested build lands behind the piece on the same line of the script's log.  The dependency's lines must still be shown, once,
    under its name; the piece and the rest of the script's output stay the script's."""
    _, j, nested_fails, seed = item
    files = {
        'y.do': scen.TRACE_HDR + 'echo "S $1 $$ $PPID" >&9\necho "y#0 first" >&2\necho "y#1 second" >&2\n%secho y > "$3"\necho "E $1 $$ 0" >&9\n' % ('exit 3\n' if nested_fails else ''),
        'z.do': scen.TRACE_HDR + 'echo "S $1 $$ $PPID" >&9\necho "z#0 only" >&2\necho z > "$3"\necho "E $1 $$ 0" >&9\n',
        'x.do': scen.TRACE_HDR + 'echo "S $1 $$ $PPID" >&9\necho "x#0 whole" >&2\nprintf "x#1 piece " >&2\nredo-ifchange y%s\necho "x#2 rest" >&2\nprintf "x#3 another piece " >&2\nredo-ifchange z\necho "x#4 end" >&2\necho x > "$3"\necho "E $1 $$ 0" >&9\n'
                % (' || true' if nested_fails else ''),
    }
    pj = scen.Project(files, 'c18q')
    anoms = []
    obs = dict(builds=1, partial_line_cases=1)
    exp = {'y': ['y#0 first', 'y#1 second'], 'z': ['z#0 only']}
    xids = ['x#0', 'x#1', 'x#2', 'x#3', 'x#4']
    try:
        r, _ = pj.run(['redo', '-j%d' % j, 'x'], extra={'REDO_PRETTY': '0'}, timeout=60, verif_log=False)
        text = r.err + r.out
        if r.status != 'exit' or r.panicked():
            return dict(verdict='inconclusive', why='build did not end normally (C09 matter)', sample=dict(item=list(item)))
        r2, _ = pj.run(['redo-log', '-r', '--no-pretty', 'x'], verif_log=False, timeout=60)
        streams = [('live', text)] + ([('replay', r2.out)] if r2.rc == 0 else [])
        if r2.rc != 0:
            anoms.append(dict(key='replay:viewer-error:piece-of-a-line-before-a-nested-build', what='redo-log -r x exits %s: %s' % (r2.rc, (r2.err + r2.out)[-200:])))
        for what, stream in streams:
            flat = stream.replace('\r', '')
            for n, ls in exp.items():
                for l in ls:
                    c = flat.count(l)
                    if c != 1:
                        anoms.append(dict(key='%s:lines-lost:piece-of-a-line-before-a-nested-build' % what if c == 0 else '%s:line-count:piece-of-a-line-before-a-nested-build' % what,
                                          what='%r (written once by %s, which was built while a piece of a line of x was pending) appears %d times in the %s output' % (l, n, c, what)))
            for xi in xids:
                if flat.count(xi) != 1:
                    anoms.append(dict(key='%s:line-count:piece-of-a-line-before-a-nested-build' % what, what='%r (x) appears %d times in the %s output' % (xi, flat.count(xi), what)))
            per, recs, problems = attribute(stream)
            for n, got in per.items():
                for g in got:
                    m = re.match(r'^\s*(\S+)#\d', g)
                    if m and m.group(1) != os.path.normpath(n) and not anoms:
                        anoms.append(dict(key='%s:line-under-wrong-target:piece-of-a-line-before-a-nested-build' % what, what='%r is shown under %r' % (g, n)))
            obs['partial_lines_attributed'] = obs.get('partial_lines_attributed', 0) + sum(len(v) for v in per.values())
    finally:
        pj.close()
    res = dict(verdict='violated' if anoms else 'held', nontrivial=True, shape=common.shash(list(item)),
               sample=dict(kind='piece-of-a-line-before-a-nested-build', j=j, nested_fails=nested_fails), obs=obs, sets=dict(segments=['piece-before-nested']))
    if anoms:
        seen = set()
        res['violations'] = [a for a in anoms if not (a['key'] in seen or seen.add(a['key']))][:4]
        res['replay'] = dict(kind='partial', item=list(item))
    return res


def unchanged_case(item):
    """x is rebuilt while its dependency y is up to date (an `unchanged y` record in x's new log): `redo-log -r -u x` shows y's own
    lines once, under y, and x's lines under x."""
    _, j, seed = item
    files = {
        'y.do': scen.TRACE_HDR + 'echo "S $1 $$ $PPID" >&9\necho "y#0 first" >&2\necho "y#1 second" >&2\necho y > "$3"\necho "E $1 $$ 0" >&9\n',
        'z.do': scen.TRACE_HDR + 'echo "S $1 $$ $PPID" >&9\necho z > "$3"\necho "E $1 $$ 0" >&9\n',       # a dependency that says nothing
        'x.do': scen.TRACE_HDR + 'echo "S $1 $$ $PPID" >&9\necho "x#0 before" >&2\nredo-ifchange y xsrc\necho "x#1 after" >&2\nredo-ifchange z\necho "x#2 after the silent one" >&2\necho x > "$3"\necho "E $1 $$ 0" >&9\n',
        'xsrc': 'v0\n',
    }
    pj = scen.Project(files, 'c18u')
    anoms = []
    obs = dict(builds=0, unchanged_record_cases=1)
    try:
        r, _ = pj.run(['redo', '-j%d' % j, 'x'], extra={'REDO_PRETTY': '0'}, timeout=60, verif_log=False)
        common.write_file(os.path.join(pj.top, 'xsrc'), 'v1\n')
        os.utime(os.path.join(pj.top, 'xsrc'), ns=(int(time.time() * 1e9) + 5 * 10 ** 9,) * 2)
        r1, _ = pj.run(['redo-ifchange', 'x'], extra={'REDO_PRETTY': '0'}, timeout=60, verif_log=False)
        obs['builds'] = 2
        if r.rc != 0 or r1.rc != 0 or r.panicked() or r1.panicked():
            return dict(verdict='inconclusive', why='builds did not end normally', sample=dict(item=list(item)))
        if '@@REDO:unchanged:' not in pj.logs_text():
            return dict(verdict='inconclusive', why='no unchanged record was written', sample=dict(item=list(item)))
        for flags in (['-r', '-u', '--no-pretty'], ['-r', '--no-pretty']):
            r2, _ = pj.run(['redo-log'] + flags + ['x'], verif_log=False, timeout=60)
            what = 'replay' + ('-u' if '-u' in flags else '')
            if r2.rc != 0:
                anoms.append(dict(key='%s:viewer-error:unchanged-dependency' % what, what='redo-log %s x exits %s: %s' % (' '.join(flags), r2.rc, (r2.err + r2.out)[-200:])))
                continue
            per, recs, problems = attribute(r2.out)
            per = {os.path.normpath(k): [g.rstrip() for g in v] for k, v in per.items()}
            if per.get('x') != ['x#0 before', 'x#1 after', 'x#2 after the silent one']:
                anoms.append(dict(key='%s:lines-under-wrong-target:unchanged-dependency' % what,
                                  what='redo-log %s x shows %s under x (the script wrote x#0 before, x#1 after, x#2 after the silent one); all: %s' % (' '.join(flags), per.get('x'), per)))
            if '-u' in flags and per.get('y') != ['y#0 first', 'y#1 second']:
                anoms.append(dict(key='%s:lines-lost:unchanged-dependency' % what, what='redo-log -r -u x shows %s under y (its log holds y#0 first, y#1 second)' % per.get('y')))
            obs['unchanged_lines_attributed'] = obs.get('unchanged_lines_attributed', 0) + sum(len(v) for v in per.values())
    finally:
        pj.close()
    res = dict(verdict='violated' if anoms else 'held', nontrivial=True, shape=common.shash(list(item)),
               sample=dict(kind='unchanged-dependency-replay', j=j), obs=obs, sets=dict(segments=['unchanged-record']))
    if anoms:
        seen = set()
        res['violations'] = [a for a in anoms if not (a['key'] in seen or seen.add(a['key']))][:4]
        res['replay'] = dict(kind='unchanged', item=list(item))
    return res


def bytes_case(item):
    """Script output is bytes: a line that is not UTF-8 (latin-1) and a multi-byte character written in two pieces with a pause
    must not end the viewer; what follows - in the same script, in its parent - is shown, live and in the replay."""
    _, j, seed = item
    files = {
        'x.do': scen.TRACE_HDR + ('echo "S $1 $$ $PPID" >&9\necho "x#0 before" >&2\nprintf "x#1 latin1 caf\\351 here\\n" >&2\nprintf "x#2 split \\303" >&2\nsleep 0.25\n'
                                  'printf "\\251 joined\\n" >&2\nprintf "x#3 lone \\200\\277 bytes\\n" >&2\necho "x#4 after" >&2\necho x > "$3"\necho "E $1 $$ 0" >&9\n'),
        'top.do': scen.TRACE_HDR + 'echo "S $1 $$ $PPID" >&9\necho "top#0 before" >&2\nredo-ifchange x\necho "top#1 after" >&2\necho t > "$3"\necho "E $1 $$ 0" >&9\n',
    }
    pj = scen.Project(files, 'c18b')
    anoms = []
    obs = dict(builds=1, non_utf8_cases=1)
    want = {'x': ['x#0 before', 'x#1 latin1 caf� here', 'x#2 split é joined', None, 'x#4 after'], 'top': ['top#0 before', 'top#1 after']}
    try:
        import subprocess
        p = subprocess.run(['redo', '-j%d' % j, 'top'], cwd=pj.top, env=pj.env({'REDO_PRETTY': '0'}, verif_log=False), stdin=subprocess.DEVNULL,
                           stdout=subprocess.PIPE, stderr=subprocess.STDOUT, timeout=60)
        text = p.stdout.decode('utf-8', 'replace')
        if p.returncode != 0:
            anoms.append(dict(key='bytes:build-failed', what=text[-300:]))
        p2 = subprocess.run(['redo-log', '-r', '--no-pretty', 'top'], cwd=pj.top, env=pj.env(verif_log=False), stdin=subprocess.DEVNULL,
                            stdout=subprocess.PIPE, stderr=subprocess.STDOUT, timeout=60)
        streams = [('live', text), ('replay', p2.stdout.decode('utf-8', 'replace'))]
        for what, stream in streams:
            if 'did not contain valid UTF-8' in stream or re.search(r'redo-log: .*[Ee]rror', stream):
                anoms.append(dict(key='%s:viewer-gave-up:output-that-is-not-utf-8' % what, what='the viewer stopped: %s' % [l for l in stream.split('\n') if 'UTF-8' in l or 'rror' in l][:2]))
            per, recs, problems = attribute(stream)
            per = {os.path.normpath(k): [g.rstrip() for g in v] for k, v in per.items()}
            for n, ls in want.items():
                got = per.get(n, [])
                ok = len(got) == len(ls) and all(w is None or w == g for w, g in zip(ls, got)) and (n != 'x' or got[3].startswith('x#3 lone '))
                if not ok and not any(a['key'].startswith(what) for a in anoms):
                    anoms.append(dict(key='%s:lines-lost:output-that-is-not-utf-8' % what, what='%s: the %s output shows %r, the script wrote %r (invalid bytes shown as U+FFFD)' % (n, what, got, ls)))
            obs['non_utf8_lines_attributed'] = obs.get('non_utf8_lines_attributed', 0) + sum(len(v) for v in per.values())
    except subprocess.TimeoutExpired:
        return dict(verdict='inconclusive', why='watchdog', sample=dict(item=list(item)))
    finally:
        pj.close()
    res = dict(verdict='violated' if anoms else 'held', nontrivial=True, shape=common.shash(list(item)),
               sample=dict(kind='output-that-is-not-utf-8', j=j), obs=obs, sets=dict(segments=['non-utf-8']))
    if anoms:
        res['violations'] = anoms[:4]
        res['replay'] = dict(kind='bytes', item=list(item))
    return res


def direct_case(item):
    _, seed, n = item
    rnd = random.Random(seed)
    rows = []
    texts = ['t', 'a b', 'x:y', '@@ z', '@@REDO:do:1:1.0@@ q', '0 name', '', ':', 'a@@b', '@@', ' lead', 'trail ', '\t', 'ünï', '12 a b c', '-1 x',
             '-9 t', '-15 sub/t x', '255 a', '2147483647 n', '-2147483648 n', '1  two-spaces', '0 ']
    for i in range(n):
        kind = rnd.choice(KINDS)
        pid = rnd.choice([0, 1, 2, 99, 32768, 4194304, 2 ** 31 - 1, rnd.randrange(1, 10 ** 6)])
        ts = rnd.choice([0.0, 0.00004, 0.5, 1.0, 1790686794.1657, 4102444800.9999, 1e12 + 0.1234, rnd.random() * 2e9])
        ts = round(ts, 4)
        if i < len(texts) * len(KINDS):
            text = texts[i % len(texts)]
            kind = KINDS[(i // len(texts)) % len(KINDS)]
        else:
            text = ''.join(rnd.choice(SAFE + '@:') for _ in range(rnd.choice([0, 1, 5, 30, 300])))
            if rnd.random() < 0.2:
                text = rnd.choice(texts) + text
        rows.append((kind, pid, ts, text))
    out, rc, err = common.native_call('meta', [[k, p, repr(t), x.encode()] for k, p, t, x in rows])
    if out is None:
        if 'panicked' in err:
            return dict(verdict='violated', nontrivial=True, shape=common.shash(list(item)), sample=dict(kind='direct'),
                        violations=[dict(key='record-roundtrip-panic', what=err[-300:])], replay=dict(kind='direct', item=list(item)))
        return dict(verdict='inconclusive', why='native harness failed: %s' % err[-200:])
    anoms = []
    n_done = [0]
    for (kind, pid, ts, text), r in zip(rows, out):
        if r[0] != 'ok':
            anoms.append(dict(key='record-does-not-reparse', what='(%s, %d, %r, %r) formats to %r which parse rejects' % (kind, pid, ts, text, bytes.fromhex(r[1]).decode('utf-8', 'replace'))))
            continue
        line = bytes.fromhex(r[1]).decode('utf-8', 'replace')
        k2, p2, t2, x2 = r[2], int(r[3]), float(r[4]), bytes.fromhex(r[5]).decode('utf-8', 'replace')
        if (k2, p2, x2) != (kind, pid, text) or abs(t2 - ts) > 0.00006:
            anoms.append(dict(key='record-roundtrip-differs', what='(%s, %d, %r, %r) -> %r -> (%s, %d, %r, %r)' % (kind, pid, ts, text, line, k2, p2, t2, x2)))
        if '\n' in line:
            anoms.append(dict(key='record-contains-newline', what=repr(line)))
        # the exit status and the name the viewer reads out of a "done" record (what redo writes: a decimal i32, one space, the name)
        if kind == 'done' and len(r) >= 7:
            md = re.match(r'^(-?\d+) (.*)$', text, re.S)
            if md and -2 ** 31 <= int(md.group(1)) < 2 ** 31:
                n_done[0] += 1
                got = (r[6], bytes.fromhex(r[7] if len(r) > 7 else '').decode('utf-8', 'replace'))
                if got != (str(int(md.group(1))), md.group(2)):
                    anoms.append(dict(key='done-record-status-or-name-lost', what='done record %r is read back as status/name %r' % (text, got)))
    res = dict(verdict='violated' if anoms else 'held', nontrivial=True, shape=common.shash(list(item)), sample=dict(kind='direct-roundtrip', seed=seed, records=n),
               obs=dict(record_roundtrips=len(rows), done_records_read_back=n_done[0]), sets=dict(record_kinds_roundtripped=KINDS))
    if anoms:
        seen = set()
        res['violations'] = [a for a in anoms if not (a['key'] in seen or seen.add(a['key']))][:4]
        res['replay'] = dict(kind='direct', item=list(item))
    return res


def _hist_hook(hr, step, op, entry, anoms, ctx):
    """On generated histories (sub-directories, default rules, checksummed targets, out-of-band builds): the viewer never gives
    up during a build, and every target the command built can be replayed."""
    from ..histrun import Anomaly
    if entry is None or ctx is None or entry.get('status') != 'exit':
        return []
    out = []
    text = (hr.last_result.err or '') + (hr.last_result.out or '')
    m = re.search(r'redo-log: [^\n]*(not known to redo|rror)[^\n]*', text)
    if m:
        out.append(Anomaly(cls='viewer', key='history:viewer-error', what='during %s: %s' % (entry['argv'], m.group(0)[:200])))
    hr.stats['viewer_commands_checked'] = hr.stats.get('viewer_commands_checked', 0) + 1
    for t in [n for n in ctx['ran'] if ctx['done'].get(n) and n in hr.p.targets][:3]:
        r = hr.redo(['redo-log', '-r', '--no-pretty', t], timeout=60)
        hr.stats['replays_of_built_targets'] = hr.stats.get('replays_of_built_targets', 0) + 1
        if r.status == 'exit' and r.rc != 0:
            out.append(Anomaly(cls='viewer', key='history:replay-fails', what='redo-log -r %s exits %s after %s built it: %s' % (t, r.rc, entry['argv'], (r.err + r.out)[-200:])))
        elif r.status == 'exit':
            # the lines the script wrote (ERRLINES in its cfg) are all there, once each
            nl = int(hr.p.targets[t].get('errlines') or 0)
            for i in range(nl):
                c = len(re.findall(r'^%s#%d$' % (re.escape(t), i), r.out, re.M))
                if c != 1:
                    out.append(Anomaly(cls='viewer', key='history:replay-line-count', what='line %s#%d appears %d times in redo-log -r %s' % (t, i, c, t)))
                    break
    hr.anoms.extend(out)
    return []


def hist_case(seed):
    from .. import gen, histrun
    prof = gen.profile(ntgt=(4, 10), p_subdir=0.45, p_default=0.5, p_twodot=0.3, p_stamp=0.35, p_always=0.1, p_flag=0.1, p_opt=0.05, steps=(6, 14),
                       jmax=(3 if seed % 2 else 1), ops=dict(m_stamp=3, force=2, edit_r=3, edit_i=2, rm=1, doedit=1))
    rnd = random.Random(seed)
    p = gen.gen_program(rnd, prof)
    for n in p.targets:
        p.targets[n]['errlines'] = rnd.choice([0, 1, 3, 7])
    r = histrun.run_history(seed, prof, tag='c18h', hook=_hist_hook, prog=p)
    mine = [a for a in r['anoms'] if a['cls'] == 'viewer']
    if any(a['cls'] == 'timeout' for a in r['anoms']):
        return dict(verdict='inconclusive', why='watchdog without stuck witness', sample=dict(kind='history', seed=seed))
    res = dict(verdict='violated' if mine else 'held', nontrivial=r['stats'].get('replays_of_built_targets', 0) >= 2,
               shape=common.shash([r['shape'], [h.get('argv') for h in r['hist']]]), sample=dict(kind='history', seed=seed, commands=r['stats']['commands']),
               obs=dict(history_commands=r['stats']['commands'], viewer_commands_checked=r['stats'].get('viewer_commands_checked', 0),
                        replays_of_built_targets=r['stats'].get('replays_of_built_targets', 0)), sets=dict(segments=['history']))
    if mine:
        seen = set()
        res['violations'] = [dict(key=a['key'], what=a['what']) for a in mine if not (a['key'] in seen or seen.add(a['key']))]
        res['replay'] = dict(kind='hist', item=['hist', seed])
    return res


def dispatch(item):
    if item[0] == 'hist':
        return hist_case(item[1])
    if item[0] == 'subdir':
        return subdir_case(item)
    if item[0] == 'spelled':
        return spelled_case(item)
    if item[0] == 'oddname':
        return oddname_case(item)
    if item[0] == 'partial':
        return partial_case(item)
    if item[0] == 'unchanged':
        return unchanged_case(item)
    if item[0] == 'bytes':
        return bytes_case(item)
    return direct_case(item) if item[0] == 'direct' else case(item)


RULE = ('generated graphs of 3-25 writer scripts (nested and shared children) at -j1..8 via redo and redo-ifchange, raw log mode: every script '
        'writes id-ed lines (<target>#<seq> payload) to stderr in segments interleaved with its redo-ifchange calls: plain lines (0-200 bytes, '
        'unicode, tabs), a line written in 2-5 pieces 20-120 ms apart, lines of 5 000-100 000 bytes, look-alikes of structured records that do '
        'not parse, empty lines, bursts of 50-200 lines, a background process of the script writing lines for as long as a redo-ifchange of the same script runs and writes its records into the same log, an unterminated last line, a child that the root force-rebuilds twice in a row and whose last lines come late; one script may fail or be ended by a signal (SIGKILL/SIGTERM/SIGSEGV, recorded as a negative status). Monitor: the live stderr of the '
        'top-level command and the output of `redo-log -r --no-pretty` (from the project top and from a sub-directory) are attributed to '
        'targets by the do/resumed/done records (a record may be glued to an unterminated line); for every script that ran to its end the '
        'attributed lines must equal the written ones exactly (after trailing-whitespace stripping), no id-ed line may appear under another '
        'target, each executed target has one do and one done record with its exit status. Two-spellings layer: a dependency that writes to stderr is asked for from two directories through different spellings (x, ../x, absolute, detours, a symlinked name of the directory), the second request during or after its build: each of its lines appears once, under its own name, live and in the replay. Non-UTF-8 layer: a script writes a latin-1 line, a multi-byte character in two pieces with a pause, and lone continuation bytes: the viewer goes on, every other line is shown under its target (invalid bytes as U+FFFD), live and in the replay. Unchanged-record layer: a target is rebuilt while its dependency is up to date; `redo-log -r -u` shows the lines of the dependency once under its name and the lines of the target under the target. Piece-before-nested layer: a script writes a piece of a line and then asks for a dependency that is built (its record lands behind the piece on the same line): the lines of the dependency appear once under its name, the pieces of the script once under the script. Odd-names layer: targets whose names end or begin with a blank or a tab: lines stay under the exact name, the viewer does not give up. Direct layer: format->parse round trips of the '
        'record type for the fixed kind vocabulary x pids x timestamps x texts (incl. "@@ ", "@@REDO:", ":", unicode), plus the same under '
        'Miri (thorough).')
ASSUME = ['script output that contains a syntactically valid record is in-band forgery and is not generated', 'pretty mode is presentation and is not compared',
          'a script stopped by sh -e after a failed dependency is judged only up to what it wrote: only scripts that ran to their end are compared']


def main(tier):
    quick = tier == 'quick'
    rnd = random.Random(common.seed() * 53 + (0 if quick else 9))
    col = Collector(PROP, tier, 'exploration', RULE, ASSUME, floor=15)
    t0 = time.time()
    budget = 110 if quick else 1000
    items = []
    for i in range(70 if quick else 1500):
        n = rnd.choice([3, 5, 8, 12, 18, 25])
        items.append(('build', n, rnd.choice([1, 2, 3, 4, 8]), rnd.choices(['fail', 'sig', 'ok'], [3, 2, 15])[0], rnd.choice(['redo', 'redo-ifchange']), rnd.randrange(10 ** 9)))
    for j in (1, 3):
        for depth in (1, 2):
            for rep in range(1 if quick else 5):
                items.append(('subdir', j, depth, rep))
    for spell in ('../x', '$TOP/x', '../sub/../x', '../same/x', '.././x'):
        for when in ('during', 'after'):
            for first in ('a', 'sub/b'):
                for rep in range(1 if quick else 4):
                    items.append(('spelled', spell, when, first, rnd.choice([2, 3, 4]), rep))
    for j in (1, 3):
        for rep in range(1 if quick else 5):
            items.append(('oddname', j, rep))
    for j in (1, 3):
        for rep in range(1 if quick else 4):
            items.append(('unchanged', j, rep))
    for j in (1, 3):
        for rep in range(1 if quick else 4):
            items.append(('bytes', j, rep))
    for j in (1, 3):
        for nf in (False, True):
            for rep in range(1 if quick else 5):
                items.append(('partial', j, nf, rep))
    for i in range(40 if quick else 800):
        items.append(('hist', common.seed() * 100003 + (0 if quick else 50000) + i))
    for i in range(4 if quick else 60):
        items.append(('direct', common.seed() * 977 + i, 5000 if quick else 20000))
    common.ensure_native()
    for r in common.pmap(dispatch, items, procs=8, deadline=t0 + budget):
        col.add(r)
    extra = None
    if not quick:
        from . import miri_layer
        extra = miri_layer.run(col, PROP, deadline=time.time() + 300, modes=('meta',), count=300, shards=16)
    if not quick:
        from . import memcheck_layer
        memcheck_layer.run(col, PROP, ('meta',), time.time() + 300)
        ut = miri_layer.unit_tests(col, PROP, ('logs::tests',), time.time() + 400)
        if isinstance(extra, dict):
            extra['miri_unit_tests'] = ut
    rc = col.finish(extra_coverage=extra)
    common.cleanup_scratch()
    return rc


def replay(path):
    import json
    d = json.load(open(path))
    common.ensure_built()
    common.ensure_native()
    r = dispatch(tuple(d['replay']['item']))
    from ..framework import load_known
    known = set(k['key'] for k in load_known() if k.get('property') == PROP and k.get('status') == 'known')
    for v in (r.get('violations') or []):
        if v.get('key') in known:
            print('KNOWN-FINDING: property=%s %s [%s]' % (PROP, v.get('what', '')[:200], v.get('key')))
    if r.get('verdict') == 'violated' and all(v.get('key') in known for v in (r.get('violations') or [])):
        r = dict(r, verdict='held', violations=None)
    print(r.get('verdict'), r.get('violations') or r.get('why'))
    common.cleanup_scratch()
    if r.get('verdict') == 'violated':
        print('VIOLATION property=%s replay=%s' % (PROP, path))
        return 1
    return 0
