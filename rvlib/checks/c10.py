"""C10 - A kill at any moment is recovered from by simply running redo again."""
import os
import random
import re
import shutil
import sqlite3
import time

from .. import common, scen
from ..framework import Collector

PROP = 'C10'
SHIM = os.path.join(common.CACHE, 'crashshim.so')


def ensure_shim():
    if not os.path.exists(SHIM) or os.path.getmtime(SHIM) < os.path.getmtime(os.path.join(common.VERIF, 'native', 'crashshim', 'shim.c')):
        import subprocess
        subprocess.check_call(['sh', os.path.join(common.VERIF, 'native', 'build.sh')], stdout=subprocess.DEVNULL)
    return SHIM


MID = 'redo-ifchange src\necho "mid($(cat src))" > $3\n'
MID_STAMP = 'redo-ifchange src\necho "mid($(head -n 1 src))" > $3\nredo-stamp < $3\n'
TOP = 'redo-ifchange mid\necho "top($(cat mid))" > $3\n'

PROGRAMS = {
    # name: (files, pre-history [(argv | ('edit', file, text))], crash command, top targets, oracle(srcs)->{file: bytes}, sources)
    'chain-first': dict(files={'mid.do': MID, 'top.do': TOP, 'src': 'v1\n'}, pre=[], cmd=['redo-ifchange', 'top'], tops=['top'],
                        oracle=lambda s: {'mid': 'mid(%s)\n' % s['src'].rstrip('\n'), 'top': 'top(mid(%s))\n' % s['src'].rstrip('\n')}),
    'chain-stamp-first': dict(files={'mid.do': MID_STAMP, 'top.do': TOP, 'src': 'v1\nrest\n'}, pre=[], cmd=['redo-ifchange', 'top'], tops=['top'],
                              oracle=lambda s: {'mid': 'mid(%s)\n' % s['src'].split('\n')[0], 'top': 'top(mid(%s))\n' % s['src'].split('\n')[0]}),
    'chain-rebuild': dict(files={'mid.do': MID, 'top.do': TOP, 'src': 'v1\n'}, pre=[['redo-ifchange', 'top'], ('edit', 'src', 'v1b\n')],
                          cmd=['redo-ifchange', 'top'], tops=['top'],
                          oracle=lambda s: {'mid': 'mid(%s)\n' % s['src'].rstrip('\n'), 'top': 'top(mid(%s))\n' % s['src'].rstrip('\n')}),
    'chain-stamp-rebuild': dict(files={'mid.do': MID_STAMP, 'top.do': TOP, 'src': 'v1\nrest\n'}, pre=[['redo-ifchange', 'top'], ('edit', 'src', 'v1b\nrest\n')],
                                cmd=['redo-ifchange', 'top'], tops=['top'],
                                oracle=lambda s: {'mid': 'mid(%s)\n' % s['src'].split('\n')[0], 'top': 'top(mid(%s))\n' % s['src'].split('\n')[0]}),
    'chain-stamp-same-rebuild': dict(files={'mid.do': MID_STAMP, 'top.do': TOP, 'src': 'v1\nrest\n'}, pre=[['redo-ifchange', 'top'], ('edit', 'src', 'v1\nother\n')],
                                     cmd=['redo-ifchange', 'top'], tops=['top'],
                                     oracle=lambda s: {'mid': 'mid(%s)\n' % s['src'].split('\n')[0], 'top': 'top(mid(%s))\n' % s['src'].split('\n')[0]}),
    'diamond-default': dict(files={'default.d.do': 'redo-ifchange src\necho "$2($(cat src))" > $3\n', 'top.do': 'redo-ifchange a.d b.d\ncat a.d b.d > $3\n', 'src': 'v1\n'},
                            pre=[['redo-ifchange', 'a.d']], cmd=['redo-ifchange', 'top'], tops=['top'],
                            oracle=lambda s: {'a.d': 'a(%s)\n' % s['src'].rstrip('\n'), 'b.d': 'b(%s)\n' % s['src'].rstrip('\n'),
                                              'top': 'a(%s)\nb(%s)\n' % (s['src'].rstrip('\n'), s['src'].rstrip('\n'))}),
    'fan-j3': dict(files={'default.l.do': 'redo-ifchange src\necho "$2($(cat src))" > $3\n',
                          'all.do': 'redo-ifchange 1.l 2.l 3.l 4.l 5.l 6.l\ncat 1.l 2.l 3.l 4.l 5.l 6.l > $3\n', 'src': 'v1\n'},
                   pre=[], cmd=['redo', '-j3', 'all'], tops=['all'],
                   oracle=lambda s: dict([('%d.l' % i, '%d(%s)\n' % (i, s['src'].rstrip('\n'))) for i in range(1, 7)] +
                                         [('all', ''.join('%d(%s)\n' % (i, s['src'].rstrip('\n')) for i in range(1, 7)))])),
    'with-failure': dict(files={'good.do': 'redo-ifchange src\necho "good($(cat src))" > $3\n', 'bad.do': 'redo-ifchange flag\n[ "$(cat flag)" = ok ] || exit 3\necho bad-ok > $3\n',
                                'top.do': 'redo-ifchange good bad\ncat good bad > $3\n', 'src': 'v1\n', 'flag': 'fail\n'},
                         pre=[], cmd=['redo-ifchange', 'top'], tops=['top'], expect_fail_until_fixed=True,
                         oracle=lambda s: {'good': 'good(%s)\n' % s['src'].rstrip('\n'), 'bad': 'bad-ok\n', 'top': 'good(%s)\nbad-ok\n' % s['src'].rstrip('\n')}),
    # scripts that produce their output on stdout: redo itself copies it into <target>.redo.tmp (crash points inside the copy)
    'stdout-chain': dict(files={'mid.do': 'redo-ifchange src\necho "mid($(cat src))"\n', 'top.do': 'redo-ifchange mid\necho "top($(cat mid))"\nhead -c 70000 /dev/zero | tr "\\0" z\necho\n', 'src': 'v1\n'},
                         pre=[], cmd=['redo-ifchange', 'top'], tops=['top'],
                         oracle=lambda s: {'mid': 'mid(%s)\n' % s['src'].rstrip('\n'), 'top': 'top(mid(%s))\n' % s['src'].rstrip('\n') + 'z' * 70000 + '\n'}),
    # a script that builds $3 by appending, with a nested redo-ifchange (= crash points) while $3 is half written
    'append-rebuild': dict(files={'app.do': 'redo-ifchange src\necho "p1($(cat src))" >> $3\nredo-ifchange src2 aux\necho "p2($(cat src2))" >> $3\n',
                                  'aux.do': 'redo-ifchange src2\necho "aux($(cat src2))" > $3\n', 'src': 'v1\n', 'src2': 'w1\n'},
                           pre=[['redo-ifchange', 'app'], ('edit', 'src2', 'w1b\n')], cmd=['redo-ifchange', 'app'], tops=['app'],
                           oracle=lambda s: {'app': 'p1(%s)\np2(%s)\n' % (s['src'].rstrip('\n'), s['src2'].rstrip('\n')), 'aux': 'aux(%s)\n' % s['src2'].rstrip('\n')}),
    # redo-always / redo-ifcreate / redo-stamp are redo processes with database writes of their own: crash points inside them too
    'always-ifcreate': dict(files={'alw.do': 'redo-ifchange src\nredo-always\necho "alw($(cat src))" > $3\n',
                                   'watch.do': 'redo-ifchange src\nif [ -e maybe ]; then redo-ifchange maybe; else redo-ifcreate maybe; fi\necho "watch($(cat src))$(cat maybe 2>/dev/null)" > $3\n',
                                   'top.do': 'redo-ifchange alw watch\ncat alw watch > $3\n', 'src': 'v1\n'},
                            pre=[['redo-ifchange', 'top'], ('edit', 'src', 'v1c\n')], cmd=['redo-ifchange', 'top'], tops=['top'],
                            oracle=lambda s: {'alw': 'alw(%s)\n' % s['src'].rstrip('\n'), 'watch': 'watch(%s)\n' % s['src'].rstrip('\n'),
                                              'top': 'alw(%s)\nwatch(%s)\n' % (s['src'].rstrip('\n'), s['src'].rstrip('\n'))}),
    # the user had replaced a generated target by hand (noticed by a build), then removed it again: redo owns it once more
    'override-then-removed': dict(files={'mid.do': MID, 'top.do': TOP, 'src': 'v1\n'},
                                  pre=[['redo-ifchange', 'top'], ('edit', 'mid', 'made by hand\n'), ['redo-ifchange', 'top'], ('rm', 'mid'), ('edit', 'src', 'v1c\n')],
                                  cmd=['redo-ifchange', 'top'], tops=['top'],
                                  oracle=lambda s: {'mid': 'mid(%s)\n' % s['src'].rstrip('\n'), 'top': 'top(mid(%s))\n' % s['src'].rstrip('\n')}),
    'existing-db-new-target': dict(files={'mid.do': MID, 'top.do': TOP, 'src': 'v1\n', 'other.do': 'echo other > $3\n'}, pre=[['redo-ifchange', 'other']],
                                   cmd=['redo-ifchange', 'top'], tops=['top'],
                                   oracle=lambda s: {'mid': 'mid(%s)\n' % s['src'].rstrip('\n'), 'top': 'top(mid(%s))\n' % s['src'].rstrip('\n')}),
}


def path_class(p, top):
    p = p.replace(top + '/', '')
    if p.endswith('db.sqlite3-wal'):
        return 'wal'
    if p.endswith('db.sqlite3-shm'):
        return 'shm'
    if p.endswith('db.sqlite3-journal'):
        return 'journal'
    if p.endswith('db.sqlite3'):
        return 'db'
    if p.endswith('.log.tmp'):
        return 'logtmp'
    if re.search(r'\.redo/log\.\d+$', p):
        return 'log'
    if p.endswith('.redo/locks'):
        return 'locks'
    if p.endswith('.redo'):
        return 'statedir'
    if p.endswith('.redo.tmp'):
        return 'target-tmp'
    return 'target' if not p.startswith('.redo') else 'other'


def prepare(pj, prog, clock):
    for act in prog['pre']:
        if isinstance(act, tuple) and act[0] == 'rm':
            os.unlink(os.path.join(pj.top, act[1]))
        elif isinstance(act, tuple):
            common.write_file(os.path.join(pj.top, act[1]), act[2])
            clock[0] += 10 ** 9
            os.utime(os.path.join(pj.top, act[1]), ns=(clock[0], clock[0]))
        else:
            r, _ = pj.run(act, verif_log=False)
            if r.rc != 0:
                return False
    return True


def sources_of(pj, prog):
    return {n: (common.read_file(os.path.join(pj.top, n)) or b'').decode() for n in prog['files'] if not n.endswith('.do')}


def compare(pj, prog):
    want = prog['oracle'](sources_of(pj, prog))
    bad = []
    for n, b in want.items():
        got = common.read_file(os.path.join(pj.top, n))
        if got is None or got.decode('utf-8', 'replace') != b:
            bad.append(n)
    return bad


def count_points(name):
    prog = PROGRAMS[name]
    pj = scen.Project(prog['files'], 'c10n')
    try:
        clock = [int(time.time() * 1e9) - 10 ** 12]
        for n in prog['files']:
            clock[0] += 10 ** 9
            os.utime(os.path.join(pj.top, n), ns=(clock[0], clock[0]))
        if not prepare(pj, prog, clock):
            return 0, []
        log = os.path.join(pj.top, '..', os.path.basename(pj.top) + '.shimlog')
        ctr = log + '.ctr'
        r, _ = pj.run(prog['cmd'], extra=dict(LD_PRELOAD=ensure_shim(), CRASH_CTR=ctr, CRASH_LOG=log, CRASH_ROOT=pj.top), verif_log=False)
        lines = (common.read_file(log) or b'').decode().split('\n')[:-1]
        for f in (log, ctr):
            if os.path.exists(f):
                os.unlink(f)
        pts = []
        for l in lines:
            f = l.split(' ')
            pts.append((f[2], f[3], path_class(f[4], pj.top)))
        return len(lines), pts
    finally:
        pj.close()


def crash_case(item):
    name, p, mode = item[:3]
    p2, mode2 = (item[3], item[4]) if len(item) > 3 else (None, None)      # the recovery run is killed too, at its p2-th call
    prog = PROGRAMS[name]
    pj = scen.Project(prog['files'], 'c10')
    anoms = []
    obs = dict(crash_runs=1, crashed=0)
    sets = {}
    point = None
    try:
        clock = [int(time.time() * 1e9) - 10 ** 12]
        for n in prog['files']:
            clock[0] += 10 ** 9
            os.utime(os.path.join(pj.top, n), ns=(clock[0], clock[0]))
        if not prepare(pj, prog, clock):
            return dict(verdict='inconclusive', why='pre-history failed', sample=dict(item=list(item)))
        log = os.path.join(os.path.dirname(pj.top), os.path.basename(pj.top) + '.shimlog')
        ctr = log + '.ctr'
        r, _ = pj.run(prog['cmd'], extra=dict(LD_PRELOAD=ensure_shim(), CRASH_CTR=ctr, CRASH_LOG=log, CRASH_AT=str(p), CRASH_MODE=mode, CRASH_ROOT=pj.top),
                      verif_log=False, timeout=40)
        lines = (common.read_file(log) or b'').decode().split('\n')[:-1]
        for f in (log, ctr):
            if os.path.exists(f):
                os.unlink(f)
        hit = [l for l in lines if l.split(' ')[0] == str(p)]
        if not hit:
            return dict(verdict='held', nontrivial=False, shape='nocrash', sample=dict(program=name, point=p, mode=mode, crashed=False), obs=dict(crash_runs=1, crashed=0))
        obs['crashed'] = 1
        f = hit[0].split(' ')
        point = (f[2], f[3], path_class(f[4], pj.top))
        prev = None
        for l in reversed(lines[:-1]):
            g = l.split(' ')
            if g[1] == f[1]:
                prev = (g[3], path_class(g[4], pj.top))
                break
        sets['crash_point_classes'] = ['%s:%s:%s' % point]
        where = '%s:%s:%s:after=%s' % (point[0], point[1], point[2], '%s-%s' % prev if prev else 'start')
        # remnants of the crashed run (mode self) have drained or were killed by run_cmd's session handling
        if r.status != 'exit':
            obs['crash_run_remnants_killed'] = 1

        def judge(tag, expect_ok=True):
            rr, _ = pj.run(['redo-ifchange'] + prog['tops'], verif_log=False, timeout=40)
            text = rr.err + rr.out
            if rr.status == 'timeout':
                return 'inconclusive'
            if rr.status == 'stuck':
                anoms.append(dict(key='%s-stuck:%s' % (tag, where), what='%s run stuck: %s' % (tag, rr.witness)))
                return 'bad'
            pt = common.panic_text(text)
            if pt or rr.rc == 101:
                anoms.append(dict(key='%s-panic:%s' % (tag, where), what=pt or 'exit 101'))
                return 'bad'
            if 'you modified it' in text:
                anoms.append(dict(key='%s-override-warning:%s' % (tag, where), what='a file the user never touched is treated as hand-edited: %s' % text[-200:].replace('\n', ' | ')))
            if expect_ok:
                if rr.rc != 0:
                    anoms.append(dict(key='%s-fails:%s:%s' % (tag, scen.classify_error(text) or 'rc=%s' % rr.rc, where), what='exit %s: %s' % (rr.rc, text[-300:].replace('\n', ' | '))))
                    return 'bad'
                bad = compare(pj, prog)
                if bad:
                    anoms.append(dict(key='%s-stale:%s' % (tag, where), what='%s wrong after exit 0' % bad))
                    return 'bad'
            else:
                if rr.rc == 0:
                    anoms.append(dict(key='%s-succeeds-despite-failing-script:%s' % (tag, where), what='exit 0'))
            return 'ok'

        # ---- what the queries say about the state the kill left behind (judged against what the recovery then rebuilds)
        names = list(prog['oracle'](sources_of(pj, prog)))
        listed = None
        if not p2:
            rq1, _ = pj.run(['redo-ood'], verif_log=False, timeout=40)
            rq2, _ = pj.run(['redo-targets'], verif_log=False, timeout=40)
            rq3, _ = pj.run(['redo-sources'], verif_log=False, timeout=40)
            if rq1.status == 'exit' and rq2.status == 'exit' and rq3.status == 'exit' and rq1.rc == 0 and rq2.rc == 0 and rq3.rc == 0:
                listed = (set(os.path.normpath(l) for l in rq1.out.split('\n') if l), set(os.path.normpath(l) for l in rq2.out.split('\n') if l),
                          set(os.path.normpath(l) for l in rq3.out.split('\n') if l))
                obs['query_rounds_after_a_kill'] = 1
            elif any(common.panic_text(r_.err + r_.out) for r_ in (rq1, rq2, rq3)):
                anoms.append(dict(key='after-kill:query-panic:%s' % where, what='a query aborted on the state the kill left behind'))

        def ino(n):
            try:
                return os.lstat(os.path.join(pj.top, n)).st_ino
            except OSError:
                return None
        ino_before = {n: ino(n) for n in names}
        if p2:
            r2, _ = pj.run(['redo-ifchange'] + prog['tops'], extra=dict(LD_PRELOAD=ensure_shim(), CRASH_CTR=ctr, CRASH_LOG=log, CRASH_AT=str(p2), CRASH_MODE=mode2,
                                                                         CRASH_ROOT=pj.top), verif_log=False, timeout=40)
            lines2 = (common.read_file(log) or b'').decode().split('\n')[:-1]
            for f_ in (log, ctr):
                if os.path.exists(f_):
                    os.unlink(f_)
            hit2 = [l for l in lines2 if l.split(' ')[0] == str(p2)]
            obs['recovery_runs_killed_too'] = 1 if hit2 else 0
            if hit2:
                g = hit2[0].split(' ')
                where += ':then-recovery-killed-at=%s:%s:%s' % (g[2], g[3], path_class(g[4], pj.top))
                sets['second_crash_point_classes'] = ['%s:%s:%s' % (g[2], g[3], path_class(g[4], pj.top))]
        fail_mode = prog.get('expect_fail_until_fixed')
        v = judge('recovery', expect_ok=not fail_mode)
        if listed is not None and not anoms:
            ood, tg, sr = listed
            for n in names:
                rebuilt = ino(n) is not None and ino(n) != ino_before[n]
                if rebuilt and n in tg and n not in ood:
                    anoms.append(dict(key='after-kill:ood-misses-target-that-recovery-rebuilt:%s' % where,
                                      what='after the kill redo-targets listed %s and redo-ood did not; the recovery run rebuilt it' % n))
                if ino_before[n] is not None and n in sr and rebuilt:
                    anoms.append(dict(key='after-kill:generated-target-listed-as-source:%s' % where,
                                      what='after the kill redo-sources listed %s (a file redo generated and nobody touched); the recovery run rebuilt it' % n))
        if v == 'inconclusive':
            return dict(verdict='inconclusive', why='recovery watchdog without stuck witness', sample=dict(item=list(item)))
        # further edit of every source: targets must keep reacting
        for n in prog['files']:
            if not n.endswith('.do'):
                old = common.read_file(os.path.join(pj.top, n)).decode()
                new = 'ok\n' if n == 'flag' else 'v2-' + old
                common.write_file(os.path.join(pj.top, n), new)
                clock[0] += 10 ** 9
                os.utime(os.path.join(pj.top, n), ns=(clock[0], clock[0]))
        v2 = judge('after-edit', expect_ok=True)
        if v2 == 'inconclusive':
            return dict(verdict='inconclusive', why='edit-run watchdog without stuck witness', sample=dict(item=list(item)))
        # database sanity
        try:
            db = os.path.join(pj.top, '.redo', 'db.sqlite3')
            tmpd = common.new_dir('c10db')
            for suf in ('', '-wal', '-shm'):
                if os.path.exists(db + suf):
                    shutil.copy(db + suf, os.path.join(tmpd, 'db.sqlite3' + suf))
            con = sqlite3.connect(os.path.join(tmpd, 'db.sqlite3'))
            integ = con.execute('pragma integrity_check').fetchall()
            con.close()
            common.rmtree(tmpd)
            if integ != [('ok',)]:
                anoms.append(dict(key='integrity:%s' % where, what=str(integ)[:200]))
        except sqlite3.Error as e:
            anoms.append(dict(key='db-unreadable:%s' % where, what=str(e)))
        left = [n for n in os.listdir(pj.top) if n.endswith('.redo.tmp')]
        if left:
            anoms.append(dict(key='tmp-left-after-recovery:%s' % where, what=str(left)))
    finally:
        pj.close()
    res = dict(verdict='violated' if anoms else 'held', nontrivial=True, shape=common.shash([name, mode, point, p, p2, mode2]),
               sample=dict(program=name, point=p, mode=mode, at=point), obs=obs, sets=sets)
    if anoms:
        res['violations'] = anoms
        res['replay'] = dict(kind='crash', item=list(item))
    return res


def random_kill_case(item):
    """Cross-check that syscall alignment hides nothing: SIGKILL the whole tree at a random time."""
    name, delay_ms, seed = item
    import signal
    import subprocess
    prog = PROGRAMS[name]
    pj = scen.Project(prog['files'], 'c10r')
    anoms = []
    try:
        clock = [int(time.time() * 1e9) - 10 ** 12]
        for n in prog['files']:
            clock[0] += 10 ** 9
            os.utime(os.path.join(pj.top, n), ns=(clock[0], clock[0]))
        if not prepare(pj, prog, clock):
            return dict(verdict='inconclusive', why='pre-history failed')
        p = subprocess.Popen(prog['cmd'], cwd=pj.top, env=pj.env(verif_log=False), stdin=subprocess.DEVNULL, stdout=subprocess.DEVNULL,
                             stderr=subprocess.DEVNULL, start_new_session=True)
        time.sleep(delay_ms / 1000.0)
        common.kill_session(p.pid)
        p.wait()
        for tag in ('recovery', 'after-edit'):
            if tag == 'after-edit':
                for n in prog['files']:
                    if not n.endswith('.do'):
                        old = common.read_file(os.path.join(pj.top, n)).decode()
                        common.write_file(os.path.join(pj.top, n), 'ok\n' if n == 'flag' else 'v2-' + old)
                        clock[0] += 10 ** 9
                        os.utime(os.path.join(pj.top, n), ns=(clock[0], clock[0]))
            rr, _ = pj.run(['redo-ifchange'] + prog['tops'], verif_log=False, timeout=40)
            text = rr.err + rr.out
            expect_ok = not (prog.get('expect_fail_until_fixed') and tag == 'recovery')
            if rr.status == 'stuck':
                anoms.append(dict(key='random-kill:%s-stuck' % tag, what=str(rr.witness)[:300]))
            elif rr.status == 'timeout':
                return dict(verdict='inconclusive', why='watchdog')
            elif common.panic_text(text):
                anoms.append(dict(key='random-kill:%s-panic' % tag, what=common.panic_text(text)))
            elif expect_ok and rr.rc != 0:
                anoms.append(dict(key='random-kill:%s-fails' % tag, what=text[-300:]))
            elif expect_ok and compare(pj, prog):
                anoms.append(dict(key='random-kill:%s-stale' % tag, what=str(compare(pj, prog))))
            elif 'you modified it' in text:
                anoms.append(dict(key='random-kill:%s-override-warning' % tag, what=text[-200:]))
    finally:
        pj.close()
    res = dict(verdict='violated' if anoms else 'held', nontrivial=True, shape=common.shash(list(item)),
               sample=dict(kind='random-time-kill', program=name, delay_ms=delay_ms), obs=dict(random_kills=1), sets=dict(crash_point_classes=['random-time']))
    if anoms:
        res['violations'] = anoms
        res['replay'] = dict(kind='random', item=list(item))
    return res


GEN_PROF = None


def _gen_prof():
    global GEN_PROF
    if GEN_PROF is None:
        from .. import gen
        GEN_PROF = gen.profile(ntgt=(3, 9), p_flag=0.0, p_opt=0.0, p_phony=0.0, p_stamp=0.4, p_always=0.15, p_scribble=0.0, p_watch=0.25, p_dyn=0.3,
                               ops=dict(build=0, edit_r=5, edit_i=2, touch=1, rm=2, doedit=1, doadd=1, dorm=0, sel=2, flag=0, watch=2, force=0, repeat=0,
                                        uwrite=0, urm=0, dorm_last=0, m_watchduring=0))
    return GEN_PROF


def gen_crash_case(item):
    """Generated programs (default rules, checksummed and always targets, dynamic dependency lists, ifcreate watchers, outputs that are
    symbolic links, dependencies reached through a symlinked directory): full build, one to three edits, then a rebuild that is
    killed before a random state-changing call; recovery by a plain redo-ifchange, judged by the content oracle of the program; one
    more source edit and rebuild."""
    _, seed, mode, j = item
    from .. import gen
    from ..histrun import HistRunner
    rnd = random.Random(seed)
    prof = _gen_prof()
    p = gen.gen_program(rnd, prof)
    hr = HistRunner(p, tag='c10g')
    anoms = []
    obs = dict(crash_runs=1, crashed=0, generated_programs=1)
    sets = {}
    where = 'generated'
    try:
        used = set(d for t in p.targets.values() for d in t['deps'])
        tops = [n for n in p.order if n not in used][-3:] or p.order[-1:]
        r = hr.redo(['redo-ifchange'] + tops)
        if r.status != 'exit' or r.rc != 0:
            return dict(verdict='inconclusive', why='generated program: first build failed (%s)' % r.rc, sample=dict(item=list(item)))
        applied = 0
        for _ in range(12):
            op = gen.gen_op(rnd, p, prof)
            if op is None or isinstance(op, list) or op[0] == 'build':
                continue
            if hr.apply_edit(op) is not False:
                applied += 1
            if applied >= rnd.randint(1, 3):
                break
        log = os.path.join(os.path.dirname(hr.top), os.path.basename(hr.top) + '.shimlog')
        ctr = log + '.ctr'
        pt = int(2 ** rnd.uniform(0, 8.2))
        rc_ = hr.redo(['redo-ifchange'] + tops, j=j, timeout=40,
                      extra_env=dict(LD_PRELOAD=ensure_shim(), CRASH_CTR=ctr, CRASH_LOG=log, CRASH_AT=str(pt), CRASH_MODE=mode, CRASH_ROOT=hr.top))
        lines = (common.read_file(log) or b'').decode().split('\n')[:-1]
        for f in (log, ctr):
            if os.path.exists(f):
                os.unlink(f)
        hit = [l for l in lines if l.split(' ')[0] == str(pt)]
        if not hit:
            return dict(verdict='held', nontrivial=False, shape='nocrash', sample=dict(kind='generated', seed=seed, point=pt, crashed=False), obs=obs)
        obs['crashed'] = 1
        f = hit[0].split(' ')
        point = (f[2], f[3], path_class(f[4], hr.top))
        sets['crash_point_classes'] = ['%s:%s:%s' % point]
        sets['generated_target_kinds'] = sorted(set(k for t in p.targets.values() for k in ('stamp', 'always', 'dyn', 'watch', 'linkout', 'alias', 'head', 'split') if t.get(k)))
        where = 'generated:%s:%s:%s' % point

        def judge(tag):
            rr = hr.redo(['redo-ifchange'] + tops, timeout=60)
            text = rr.err + rr.out
            if rr.status == 'timeout':
                return 'inconclusive'
            if rr.status == 'stuck':
                anoms.append(dict(key='%s-stuck:%s' % (tag, where), what='%s run stuck: %s' % (tag, rr.witness)))
                return 'bad'
            ptx = common.panic_text(text)
            if ptx or rr.rc == 101:
                anoms.append(dict(key='%s-panic:%s' % (tag, where), what=ptx or 'exit 101'))
                return 'bad'
            if 'you modified it' in text:
                anoms.append(dict(key='%s-override-warning:%s' % (tag, where), what='a file the user never touched is treated as hand-edited: %s' % text[-200:].replace('\n', ' | ')))
            if rr.rc != 0:
                anoms.append(dict(key='%s-fails:%s:%s' % (tag, scen.classify_error(text) or 'rc=%s' % rr.rc, where), what='exit %s: %s' % (rr.rc, text[-300:].replace('\n', ' | '))))
                return 'bad'
            clo = set()
            for t in tops:
                p.closure(t, clo)
            memo = {}
            bad = [n for n in sorted(clo) if p.expected(n, memo) != common.read_file(hr.path(n))]
            if bad:
                anoms.append(dict(key='%s-stale:%s' % (tag, where), what='%s wrong after exit 0 (seed %s, killed before %s %s)' % (bad, seed, point[1], point[2])))
                return 'bad'
            return 'ok'

        v = judge('recovery')
        if v == 'inconclusive':
            return dict(verdict='inconclusive', why='recovery watchdog without stuck witness', sample=dict(item=list(item)))
        srcs = sorted(p.sources)
        hr.apply_edit(('edit_r', rnd.choice(srcs)))
        hr.apply_edit(('edit_r', rnd.choice(srcs)))
        v2 = judge('after-edit')
        if v2 == 'inconclusive':
            return dict(verdict='inconclusive', why='edit-run watchdog without stuck witness', sample=dict(item=list(item)))
        left = [n for n in os.listdir(hr.top) if n.endswith('.redo.tmp')]
        if left and not anoms:
            anoms.append(dict(key='tmp-left-after-recovery:%s' % where, what=str(left)))
    finally:
        hr.close()
    res = dict(verdict='violated' if anoms else 'held', nontrivial=True, shape=common.shash(['gen', seed, mode, j]),
               sample=dict(kind='generated', seed=seed, mode=mode, j=j), obs=obs, sets=sets)
    if anoms:
        res['violations'] = anoms
        res['replay'] = dict(kind='generated', item=list(item))
    return res


def dispatch(item):
    if item[0] == 'generated':
        return gen_crash_case(tuple(item))
    if item[0] == 'random':
        return random_kill_case(item[1:])
    return crash_case(item)


RULE = ('for each of 13 small programs (first builds and rebuilds of a chain, a target the user had overridden and then removed again, with and without a checksummed target, scripts writing to stdout, a script that appends to $3 around a nested redo-ifchange, scripts calling redo-always and redo-ifcreate, a diamond under a '
        'default rule, a 6-leaf fan at -j3, a build with a failing node, a first target in an existing database) an LD_PRELOAD shim counts the '
        'state-changing libc calls (rename, unlink, create/truncating open, write/pwrite to regular files incl. the SQLite database, WAL and '
        'log files, ftruncate, mkdir) of all redo processes and SIGKILLs the calling process (mode self) or its whole process group (mode group) '
        'immediately before call number p; every p (quick: every third plus every call on a target or its temporary file, fewer programs) x both modes, each from a fresh replayed pre-history. '
        'Before the recovery the three queries run on the state the kill left: a target that the recovery then rebuilds and that redo-targets lists must be in redo-ood, and no untouched generated file that the recovery rebuilds may be listed as a source. Recovery protocol: redo-ifchange (no clean-up) must finish, not be stuck, not panic, exit 0, leave every target equal to the oracle, '
        'not call an untouched file hand-edited; then every source is edited and the same is required again; integrity_check; no *.redo.tmp. '
        'Double kills: the recovery run itself is killed before a random call of its own (40 quick / 1500 thorough combinations), then a second recovery is judged the same way. Plus random-time whole-tree kills. Generated programs (120 quick / 4 000 thorough; the program generator of the history checks: default rules, checksummed and always targets, dynamic dependency lists, ifcreate watchers, outputs that are symbolic links, dependencies through a symlinked directory; no failing scripts): full build, 1-3 edits (sources, rules, dependency lists, watched paths, removed targets), a rebuild at -j1/-j3 killed before a random call, recovery and a further edit judged by the content oracle of the program. Non-trivial: the kill really happened. Distinct: (program, mode, point number).')
ASSUME = ['crash points are libc-call aligned (cross-checked by random-time kills)', 'only the recovery runs are judged, never the crashed run',
          'remnants of a crashed run (mode self) are waited for, and killed if they do not end, before recovery starts']


def main(tier):
    quick = tier == 'quick'
    ensure_shim()
    common.ensure_built()
    col = Collector(PROP, tier, 'fault_enumeration', RULE, ASSUME, floor=20)
    rnd = random.Random(common.seed())
    names = ['chain-first', 'chain-stamp-rebuild', 'chain-rebuild', 'diamond-default', 'append-rebuild', 'stdout-chain', 'override-then-removed'] if quick else list(PROGRAMS)
    items = []
    counts = {}
    for n in names:
        cnt, pts = count_points(n)
        counts[n] = cnt
        step = 3 if quick else 1
        off = common.seed() % step
        for p in range(1 + off, cnt + 3, step):
            for mode in ('self', 'group'):
                if quick and (p + (0 if mode == 'self' else 1)) % 2:
                    continue
                items.append((n, p, mode))
        if quick:
            # calls on the targets themselves and on their temporary files (the rename into place above all) are always taken
            for p, pt in enumerate(pts, 1):
                if pt[2] in ('target', 'target-tmp'):
                    for mode in ('self', 'group'):
                        if (n, p, mode) not in items:
                            items.append((n, p, mode))
    # the recovery run is killed as well (at a random call of its own), then a second recovery is judged
    for i in range(40 if quick else 1500):
        n = rnd.choice(names)
        items.append((n, rnd.randint(1, max(2, counts[n])), rnd.choice(['self', 'group']), rnd.randint(1, 70), rnd.choice(['self', 'group'])))
    for i in range(120 if quick else 4000):
        items.append(('generated', common.seed() * 1000003 + (0 if quick else 500000) + i, rnd.choice(['self', 'group']), rnd.choice([1, 1, 3])))
    rnd.shuffle(items)
    if not quick:
        items += [('random', rnd.choice(list(PROGRAMS)), rnd.randint(1, 400), i) for i in range(300)]
    deadline = time.time() + (100 if quick else 1500)
    for r in common.pmap(dispatch, items, deadline=deadline):
        col.add(r)
    rc = col.finish(extra_coverage=dict(points_per_program=counts), exhaustive=(not quick and time.time() < deadline))
    common.cleanup_scratch()
    return rc


def replay(path):
    import json
    d = json.load(open(path))
    common.ensure_built()
    it = d['replay']['item']
    r = dispatch(tuple(it)) if d['replay']['kind'] in ('crash', 'generated') else random_kill_case(tuple(it))
    print(r.get('verdict'), r.get('violations'))
    common.cleanup_scratch()
    if r.get('verdict') == 'violated':
        print('VIOLATION property=%s replay=%s' % (PROP, path))
        return 1
    return 0
