"""C06 - At most one .do runs for a given target at any time (and its result is recorded before anyone else decides)."""
import fcntl
import os
import random
import re
import signal
import sqlite3
import struct
import threading
import time

from .. import common, scen
from ..common import run_cmd
from ..framework import Collector
from ..jobserver import HarnessJobserver

PROP = 'C06'
LOG_LOCK = 0x10000000


# --------------------------------------------------------------------------- the order monitor

def monitor(text, fid_of):
    """Order monitor over the unified trace.  fid_of: target name -> file id (from the project's database).
    Returns (anomalies, stats).

    Soundness (DESIGN.md 2.3): lock_acq is recorded after the acquisition, lock_rel before the release, so a
    recorded holding interval lies inside the real one; script records are written by the script itself.  A
    process that was killed leaves intervals open, therefore every rule needs a later record of the *first*
    party as proof that it was still alive when the second one arrived."""
    anoms = []
    st = dict(records=0, script_starts=0, lock_acquisitions=0, contended_waits=0, scripts_checked_for_holder=0,
              handovers=0, record_commits=0)
    open_scripts = {}      # target -> {pid: True}
    pend_overlap = {}      # first pid -> (target, second pid)
    holders = {}           # fid -> {pid}
    pend_excl = []         # (fid, first pid, second pid)
    after_done = {}        # (pid, fid) -> waiting for record_commit
    script_target = {}     # script pid -> target
    last_holder_rel = {}   # fid -> pid of the last recorded release
    seen = set()

    def add(key, what):
        if key not in seen:
            seen.add(key)
            anoms.append(dict(key=key, what=what))

    for line in text.split('\n'):
        if not line:
            continue
        st['records'] += 1
        f = line.split(' ')
        k = f[0]
        if k in ('S', 'W+', 'W-', 'E') and len(f) >= 3:
            t, pid = f[1], f[2]
            # proof of life of a script that somebody else overlapped
            if pid in pend_overlap:
                t2, p2 = pend_overlap.pop(pid)
                add('overlap:script-executions', 'two executions of %s.do overlap: pid %s was still running (%s record) after pid %s had started'
                    % (t2, pid, k, p2))
            if k == 'S':
                st['script_starts'] += 1
                script_target[pid] = t
                for p1 in open_scripts.get(t, {}):
                    if p1 != pid:
                        pend_overlap[p1] = (t, pid)
                open_scripts.setdefault(t, {})[pid] = True
            elif k == 'E':
                open_scripts.get(t, {}).pop(pid, None)
            # the lock of the target must be held by some redo process while its script is alive
            fid = fid_of.get(t)
            if fid is not None:
                st['scripts_checked_for_holder'] += 1
                if not holders.get(fid):
                    add('script-alive-without-lock', '%s record of %s (pid %s) while no redo process holds lock %d%s'
                        % (k, t, pid, fid, '; last released by pid %s' % last_holder_rel[fid] if fid in last_holder_rel else ''))
        elif k == 'H' and len(f) >= 3:
            pid, kind = f[1], f[2]
            kv = dict(x.split('=', 1) for x in f[3:] if '=' in x)
            try:
                fid = int(kv.get('fid', '-1'))
            except ValueError:
                fid = -1
            if fid <= 0 or fid >= LOG_LOCK:
                continue
            if kind == 'lock_acq':
                st['lock_acquisitions'] += 1
                if kv.get('how') == 'wait':
                    st['contended_waits'] += 1
                for p1 in holders.get(fid, ()):
                    if p1 != pid:
                        pend_excl.append((fid, p1, pid))
                holders.setdefault(fid, set()).add(pid)
            elif kind == 'lock_rel':
                hs = holders.get(fid, set())
                if pid in hs:
                    hs.discard(pid)
                    last_holder_rel[fid] = pid
                    for (fd, p1, p2) in list(pend_excl):
                        if fd == fid and p1 == pid:
                            pend_excl.remove((fd, p1, p2))
                            add('lock-held-by-two', 'lock %d: pid %s acquired it while pid %s still held it (released only later)' % (fid, p2, p1))
                    if after_done.pop((pid, fid), None):
                        add('lock-released-before-result-recorded', 'pid %s saw the job of file %d end and released its lock without having committed the new state' % (pid, fid))
                # a release by a non-holder is the drop of a lock object that was never really taken (redo-unlocked children)
            elif kind == 'job_done':
                after_done[(pid, fid)] = True
            elif kind == 'record_commit':
                st['record_commits'] += 1
                after_done.pop((pid, fid), None)
    return anoms, st


# --------------------------------------------------------------------------- hook-free cross-check: /proc/locks

class LockSampler(threading.Thread):
    """While a round runs: a live script of target N must be covered by a WRITE lock on byte N of .redo/locks."""

    def __init__(self, top):
        super().__init__(daemon=True)
        self.top = os.path.realpath(top)
        self.stop_ = False
        self.samples = 0
        self.scripts_seen = 0
        self.missing = []       # (target, pid)
        self.fid_of = {}
        self.holders_seen = set()

    def run(self):
        lockfile = os.path.join(self.top, '.redo', 'locks')
        while not self.stop_:
            time.sleep(0.015)
            try:
                ino = os.stat(lockfile).st_ino
            except OSError:
                continue
            scripts = []
            for d in os.listdir('/proc'):
                if not d.isdigit():
                    continue
                try:
                    cmd = open('/proc/%s/cmdline' % d, 'rb').read().split(b'\0')
                    if len(cmd) < 5 or cmd[0] != b'sh' or cmd[1] != b'-e' or not cmd[2].endswith(b'.do'):
                        continue
                    if os.readlink('/proc/%s/cwd' % d) != self.top:
                        continue
                    st = open('/proc/%s/stat' % d).read()
                    ff = st[st.rfind(')') + 2:].split()
                    start = ff[19]
                    scripts.append((int(d), cmd[3].decode('utf-8', 'replace'), start, int(ff[3])))
                except (OSError, IndexError):
                    continue
            if not scripts:
                continue
            # F_GETLK asks the kernel atomically whether a conflicting lock exists on one byte (reading /proc/locks is
            # not an atomic snapshot: an entry that is being merged with a neighbouring range can be missed)
            try:
                fd = os.open(lockfile, os.O_RDWR)
            except OSError:
                continue
            try:
                self.samples += 1
                for pid, t, start, sid in scripts:
                    fid = self.fid_of.get(t)
                    if fid is None:
                        continue
                    try:
                        r = fcntl.fcntl(fd, fcntl.F_GETLK, struct.pack('hhqqi4x', fcntl.F_WRLCK, 0, fid, 1, 0))
                        ltype, _, _, _, lpid = struct.unpack('hhqqi4x', r)
                    except OSError:
                        continue
                    try:
                        st = open('/proc/%d/stat' % pid).read()
                        f = st[st.rfind(')') + 2:].split()
                        alive = f[19] == start and f[0] != 'Z'
                    except (OSError, IndexError):
                        alive = False
                    if not alive:
                        continue          # it ended while we were looking: says nothing
                    self.scripts_seen += 1
                    if ltype == fcntl.F_UNLCK:
                        self.missing.append((t, pid, sid))
                    else:
                        self.holders_seen.add(lpid)
            finally:
                os.close(fd)


def fid_map(top):
    db = os.path.join(top, '.redo', 'db.sqlite3')
    try:
        con = sqlite3.connect('file:%s?mode=ro' % db, uri=True, timeout=5)
        rows = con.execute('select rowid, name from Files').fetchall()
        con.close()
        return {n: i for i, n in rows}
    except sqlite3.Error:
        return None


# --------------------------------------------------------------------------- workload

def leaf(sl):
    return scen.leaf_do(sl) .replace('echo "leaf $1" > "$3"', '[ "$RV_FAIL" != "$1" ] || { [ -z "$RV_FAIL_DIR" ] || { mkdir "$3" && echo x > "$3/left"; }; echo "E $1 $$ 3" >&9; exit 3; }\necho "leaf $1 $(cat src 2>/dev/null | head -c 20)" > "$3"')


def make_files(rnd):
    files = {'src': 'v0 keep\n'}
    files['default.leaf.do'] = leaf('sleep 0.0$(( $$ % 9 ))')
    nl = rnd.choice([6, 9, 12])
    leaves = ['l%d.leaf' % i for i in range(nl)]
    # a checksummed target below two consumers: the second phase goes through redo-unlocked
    files['st.do'] = (scen.TRACE_HDR + 'echo "S $1 $$ $PPID" >&9\nredo-ifchange src\necho "W+ $1 $$" >&9\nsleep 0.0$(( $$ % 5 ))\necho "W- $1 $$" >&9\n'
                      'cut -d" " -f2 src > "$3"\nredo-stamp < "$3"\necho "E $1 $$ 0" >&9\n')
    ng = rnd.choice([2, 3, 4])
    for g in range(ng):
        mine = [l for i, l in enumerate(leaves) if i % ng == g or i % 3 == 0]
        files['g%d.do' % g] = scen.node_do(mine + (['st'] if g < 2 else []), 'sleep 0.0$(( $$ % 6 ))')
    files['top.do'] = scen.node_do(['g%d' % g for g in range(ng)] + ['st'], 'sleep 0.02')
    return files, leaves, ng


def launch(pj, c, res, i, timeout=90):
    env = pj.env(c.get('extra'))
    js = None
    fds = ()
    if c.get('shared_js') is not None:
        # all invocations of the round draw on one token pipe (several redo trees under one `make -jN`): tokens get stolen
        env.update(c['shared_js'].env())
        fds = c['shared_js'].fds()
    elif c.get('slots'):
        js = HarnessJobserver(c['slots'])
        env.update(js.env())
        fds = js.fds()
    if c.get('delay'):
        time.sleep(c['delay'])
    try:
        argv = c['argv']
        if c.get('head') is not None:
            # the reader of redo's messages goes away part-way (`redo ... 2>&1 | head`): every later message meets a broken pipe
            argv = ['sh', '-c', '"$@" 2>&1 | head -n %d >/dev/null' % c['head'], 'sh'] + list(argv)
        res[i] = run_cmd(argv, pj.top, env=env, timeout=timeout, pass_fds=fds, preexec=None, stutter=c.get('stutter'))
    finally:
        if js:
            js.close()


def run_phase(pj, cmds, kill=None):
    """Start all commands; optionally signal the whole session of one of them part-way."""
    res = [None] * len(cmds)
    ths = [threading.Thread(target=launch, args=(pj, c, res, i)) for i, c in enumerate(cmds)]
    for t in ths:
        t.start()
    killed = None
    if kill:
        idx, after, sig = kill
        time.sleep(after)
        # the session id of a command is the pid of its leader: find it by argv + cwd
        for d in os.listdir('/proc'):
            if not d.isdigit():
                continue
            try:
                cmd = open('/proc/%s/cmdline' % d, 'rb').read().split(b'\0')
                envb = open('/proc/%s/environ' % d, 'rb').read()
            except OSError:
                continue
            if (b'RV_INV=%d' % idx) in envb.split(b'\0') and (b'RV_TOP=' + pj.top.encode()) in envb.split(b'\0'):
                st = open('/proc/%s/stat' % d).read()
                f = st[st.rfind(')') + 2:].split()
                if int(f[3]) == int(d):      # session leader
                    try:
                        os.killpg(int(d), sig)
                        killed = int(d)
                    except OSError:
                        pass
                    break
    for t in ths:
        t.join()
    return res, killed


def case(item):
    ninv, jmax, delays, abort, seed = item
    rnd = random.Random(repr(item))
    files, leaves, ng = make_files(rnd)
    pj = scen.Project(files, 'c06')
    anoms = []
    obs = dict(rounds=1)
    sets = {}
    sample = dict(invocations=ninv, jmax=jmax, delays=delays, abort=abort)
    sampler = LockSampler(pj.top)
    try:
        # a first, trivial command creates the database so that file ids can be read while the round runs
        r0, _ = pj.run(['redo-ifchange', 'src'], verif_log=False)
        pool = [['redo-ifchange', 'top'], ['redo-ifchange', 'top'], ['redo', 'top'], ['redo-ifchange', 'g0', 'g1'], ['redo', 'g1'],
                ['redo-ifchange', 'st', leaves[0]], ['redo', leaves[0], leaves[3]], ['redo-ifchange'] + leaves[:4]]

        shared = None
        if jmax > 1 and seed % 3 == 0:
            shared = HarnessJobserver(max(2, jmax))
            sets['jobserver'] = ['shared']

        def mk(phase):
            cmds = []
            for i in range(ninv):
                argv = list(rnd.choice(pool))
                j = rnd.randint(1, jmax)
                extra = {'RV_INV': str(i)}
                if delays:
                    extra['REDO_VERIF_DELAY'] = delays
                c = dict(argv=argv, delay=rnd.random() * 0.06, extra=extra)
                if seed % 5 == 2:
                    c['stutter'] = seed + i      # redo processes of this invocation are stopped and continued at random
                    sets['descheduling'] = ['random-stops']
                if shared is not None:
                    c['shared_js'] = shared
                elif j > 1:
                    if argv[0] == 'redo':
                        c['argv'] = ['redo', '-j%d' % j] + argv[1:]
                    else:
                        c['slots'] = j
                if abort in ('script-fails', 'script-fails-dir') and i == 0:
                    extra['RV_FAIL'] = rnd.choice(leaves[:4])
                    if abort == 'script-fails-dir':
                        # the failing script leaves a non-empty directory where its output was expected: redo has to clear it away
                        # while the sibling jobs of that invocation are still running
                        extra['RV_FAIL_DIR'] = '1'
                if abort == 'stderr-closed' and i == 0 and phase == 'A':
                    c['head'] = rnd.choice([0, 1, 1, 2, 3])
                    if c['argv'][0] == 'redo' and rnd.random() < 0.4:
                        c['argv'] = [c['argv'][0], '--no-log'] + c['argv'][1:]
                if abort == 'error-exit' and i == 0 and phase == 'A':
                    c['argv'] = ['redo-ifchange', 'cyc']
                    c['slots'] = 3      # so that jobs are running when the error is met
                cmds.append(c)
            return cmds
        if abort == 'error-exit':
            # a redo-ifchange that meets a hard error (dependency cycle) while a job it started is still running
            common.write_file(os.path.join(pj.top, 'cyc.do'), scen.TRACE_HDR + 'echo "S $1 $$ $PPID" >&9\nredo-ifchange cycmid\necho "E $1 $$ 0" >&9\n')
            common.write_file(os.path.join(pj.top, 'cycmid.do'),
                              scen.TRACE_HDR + 'echo "S $1 $$ $PPID" >&9\nredo-ifchange %s g0 cyc\necho "E $1 $$ 0" >&9\n' % leaves[1])
        sampler.start()
        kill = None
        if abort in ('sigterm', 'sigkill'):
            kill = (0, 0.05 + rnd.random() * 0.25, signal.SIGTERM if abort == 'sigterm' else signal.SIGKILL)
        # fids become known as targets are first mentioned; refresh the sampler's map a few times
        stopmap = [False]

        def mapper():
            while not stopmap[0]:
                m = fid_map(pj.top)
                if m:
                    sampler.fid_of = m
                time.sleep(0.05)
        mt = threading.Thread(target=mapper, daemon=True)
        mt.start()
        resA, killedA = run_phase(pj, mk('A'), kill)
        # phase B: a change below the checksummed target, then the same contention on the rebuild
        common.write_file(os.path.join(pj.top, 'src'), 'v1 %s\n' % rnd.choice(['keep', 'changed']))
        os.utime(os.path.join(pj.top, 'src'), ns=(int(time.time() * 1e9) + 5 * 10 ** 9,) * 2)
        resB, killedB = run_phase(pj, mk('B'), None)
        stopmap[0] = True
        sampler.stop_ = True
        sampler.join(timeout=5)
        mt.join(timeout=2)
        allres = [r for r in resA + resB if r is not None]
        if any(r.status == 'timeout' for r in allres):
            return dict(verdict='inconclusive', why='watchdog without stuck witness', sample=sample)
        fmap = fid_map(pj.top)
        if not fmap:
            return dict(verdict='inconclusive', why='database unreadable after the round', sample=sample)
        tr = pj.trace_text()
        ma, st = monitor(tr, fmap)
        for a in ma:
            anoms.append(a)
        # a session that was signalled as a whole dies process by process: for a moment a script can outlive the redo process
        # that held its lock.  Misses inside the killed session are that moment, not a release under a running script.
        missing = [m_ for m_ in sampler.missing if not (killedA and m_[2] == killedA)]
        obs['lock_probe_misses_inside_killed_session'] = len(sampler.missing) - len(missing)
        if missing:
            t, pid, _sid = missing[0]
            anoms.append(dict(key='lock-probe:script-alive-without-lock', what='F_GETLK probe: script of %s (pid %d) alive before and after a probe that found byte %s of .redo/locks unlocked (%d such probes)'
                              % (t, pid, fmap.get(t), len(missing))))
        obs.update(st)
        obs['lock_probe_rounds'] = sampler.samples
        obs['lock_probes_of_live_scripts'] = sampler.scripts_seen
        obs['invocations'] = len(allres)
        obs['invocations_failed_or_aborted'] = sum(1 for r in allres if r.rc != 0)
        obs['killed_sessions'] = (1 if killedA else 0)
        sets['abort_modes'] = [abort or 'none']
        sets['exit_codes'] = sorted(set(str(r.rc) for r in allres))
        # how often the same target was executed by more than one invocation one after the other (legal)
        cnt = {}
        for l in tr.split('\n'):
            if l.startswith('S '):
                cnt[l.split(' ')[1]] = cnt.get(l.split(' ')[1], 0) + 1
        obs['sequential_rebuilds_by_other_invocations'] = sum(c - 1 for c in cnt.values() if c > 1)
    finally:
        sampler.stop_ = True
        if 'shared' in dir() and shared is not None:
            shared.close()
        pj.close()
    res = dict(verdict='violated' if anoms else 'held', nontrivial=obs.get('script_starts', 0) >= 4 and obs.get('lock_acquisitions', 0) >= 4,
               shape=common.shash(list(item)), sample=sample, obs=obs, sets=sets)
    if anoms:
        res['violations'] = [dict(key=a['key'] + (':' + abort if abort else ''), what=a['what']) for a in anoms]
        res['replay'] = dict(kind='round', item=list(item))
    return res


def handover_case(item):
    """P1 builds a slow target; P2 (started later, hence a higher run id) asks for it with redo-ifchange while it is
    being built.  Nothing may be executed twice: P2 has to see P1's recorded result."""
    _, delays, gap, j2, seed = item
    files = {'slow.do': scen.node_do(['in.leaf'], 'sleep 0.35'), 'default.leaf.do': scen.leaf_do('sleep 0.05'),
             'top.do': scen.node_do(['slow', 'o.leaf'], '')}
    pj = scen.Project(files, 'c06h')
    anoms = []
    try:
        extra = {'REDO_VERIF_DELAY': delays} if delays else {}
        cmds = [dict(argv=['redo-ifchange', 'top'], extra=dict(extra, RV_INV='0')),
                dict(argv=['redo-ifchange', 'slow', 'top'] if j2 == 1 else ['redo-ifchange', 'top', 'slow'], delay=gap, extra=dict(extra, RV_INV='1'), slots=(j2 if j2 > 1 else None))]
        res, _ = run_phase(pj, cmds)
        if any(r is None or r.status != 'exit' for r in res):
            return dict(verdict='inconclusive', why='hand-over run did not end', sample=dict(kind='handover', item=list(item)))
        tr = pj.trace_text()
        # P2 must really have started after P1's script of `slow` (else the run ids say nothing)
        lines = tr.split('\n')
        runids = [l for l in lines if ' runid ' in l]
        s_slow = next((i for i, l in enumerate(lines) if l.startswith('S slow ')), None)
        cnt = {}
        for l in lines:
            if l.startswith('S '):
                cnt[l.split(' ')[1]] = cnt.get(l.split(' ')[1], 0) + 1
        fmap = fid_map(pj.top) or {}
        ma, st = monitor(tr, fmap)
        anoms.extend(ma)
        waited = ' lock_wait ' in tr
        ordered = s_slow is not None and gap >= 0.15
        if ordered:
            for t, c in sorted(cnt.items()):
                if c > 1:
                    anoms.append(dict(key='handover:executed-again-by-later-invocation', what='%s ran %d times: the later redo-ifchange did not see the recorded result' % (t, c)))
        for r in res:
            if r.rc != 0:
                anoms.append(dict(key='handover:nonzero', what='exit %s: %s' % (r.rc, r.err[-200:])))
        obs = dict(st, handovers=1, handovers_with_lock_wait=1 if waited else 0)
    finally:
        pj.close()
    res = dict(verdict='violated' if anoms else 'held', nontrivial=waited, shape=common.shash(list(item)),
               sample=dict(kind='handover', delays=delays, gap=gap, j2=j2), obs=obs, sets=dict(abort_modes=['handover']))
    if anoms:
        res['violations'] = anoms
        res['replay'] = dict(kind='handover', item=list(item))
    return res


REQ_DO = scen.TRACE_HDR + 'echo "S $1 $$ $PPID" >&9\n%(pre)s\necho "Q $1 $$ %(dep)s" >&9\nset +e\n%(cmd)s %(dep)s\nrc=$?\nset -e\necho "RC $1 $$ $rc %(dep)s" >&9\n[ $rc = 0 ] || exit $rc\ncat %(dep)s > "$3"\necho "E $1 $$ 0" >&9\n'


def rerequest_case(item):
    """Within one run: T is found clean (checked), then one job force-rebuilds it (`redo T`, a slow script) while another job asks for
    it again with redo-ifchange.  A request that begins after T's script has started cannot return before that script has ended
    and its result is recorded: the decision would have been taken while the execution was under way.  Each execution of T writes
    a new generation number, so a requester that did not wait also shows the old generation."""
    _, variant, pause, j, seed = item
    files = {
        'T.do': scen.TRACE_HDR + 'echo "S $1 $$ $PPID" >&9\nn=$(( $(cat gen 2>/dev/null || echo 0) + 1 ))\necho $n > gen\nsleep 0.45\necho "gen $n" > "$3"\necho "E $1 $$ 0" >&9\n',
        'a.do': REQ_DO % dict(pre='true', cmd='redo-ifchange', dep='T'),
        'b.do': REQ_DO % dict(pre='sleep 0.05', cmd='redo', dep='T'),
        'c.do': REQ_DO % dict(pre='sleep %s' % pause, cmd='redo-ifchange', dep='T'),
        'all.do': scen.TRACE_HDR + 'echo "S $1 $$ $PPID" >&9\nredo-ifchange a\nredo-ifchange b c\necho "E $1 $$ 0" >&9\n',
    }
    pj = scen.Project(files, 'c06q')
    anoms = []
    obs = dict(rerequest_rounds=1, requests_begun_during_an_execution=0)
    try:
        r0, _ = pj.run(['redo-ifchange', 'T'])
        if r0.rc != 0:
            return dict(verdict='inconclusive', why='pre-build failed', sample=dict(item=list(item)))
        open(pj.trace, 'w').close()
        if variant == 'one-tree':
            res = [pj.run(['redo', '-j%d' % j, 'all'], timeout=60)[0]]
        else:
            # two top-level commands of different runs: the first checks T and then waits; the second force-rebuilds it meanwhile
            res = pj.run_many([dict(argv=['redo', '-j%d' % j, 'all']), dict(argv=['redo', 'T'], delay=0.12)], timeout=60)
        if any(r.status != 'exit' for r in res):
            return dict(verdict='inconclusive', why='re-request round did not end', sample=dict(item=list(item)))
        for r in res:
            if r.rc != 0:
                anoms.append(dict(key='rerequest:nonzero', what='exit %s: %s' % (r.rc, r.err[-200:].replace('\n', ' | '))))
        lines = [l.split(' ') for l in pj.trace_text().split('\n') if l]
        # executions of T as intervals over trace positions
        runs, open_ = [], {}
        for i, f in enumerate(lines):
            if f[0] == 'S' and f[1] == 'T':
                open_[f[2]] = i
            elif f[0] == 'E' and f[1] == 'T' and f[2] in open_:
                runs.append((open_.pop(f[2]), i))
        reqs = {}
        for i, f in enumerate(lines):
            if f[0] == 'Q':
                reqs[(f[1], f[2])] = [i, None]
            elif f[0] == 'RC' and (f[1], f[2]) in reqs:
                reqs[(f[1], f[2])][1] = i
        for (who, pid), (q, rc) in sorted(reqs.items()):
            for (s_, e_) in runs:
                if s_ < q < e_:
                    obs['requests_begun_during_an_execution'] += 1
                    if rc is not None and rc < e_:
                        anoms.append(dict(key='decided-during-execution:request-returned-before-the-script-ended',
                                          what='%s asked for T after its script had started (trace position %d > %d) and got its answer at %d, before the script ended at %d'
                                               % (who, q, s_, rc, e_)))
        gen = (common.read_file(os.path.join(pj.top, 'gen')) or b'0').decode().strip()
        cfile = (common.read_file(os.path.join(pj.top, 'c')) or b'').decode().strip()
        tfile = (common.read_file(os.path.join(pj.top, 'T')) or b'').decode().strip()
        if not anoms and tfile != 'gen %s' % gen:
            anoms.append(dict(key='rerequest:target-not-from-last-execution', what='T holds %r after %s executions' % (tfile, gen)))
        fmap = fid_map(pj.top) or {}
        ma, st = monitor(pj.trace_text(), fmap)
        anoms.extend(ma)
        obs.update(st)
    finally:
        pj.close()
    res = dict(verdict='violated' if anoms else 'held', nontrivial=obs['requests_begun_during_an_execution'] > 0, shape=common.shash(list(item)),
               sample=dict(kind='rerequest', variant=variant, pause=pause, j=j), obs=obs, sets=dict(abort_modes=['rerequest:' + variant]))
    if anoms:
        res['violations'] = anoms[:4]
        res['replay'] = dict(kind='rerequest', item=list(item))
    return res


def dispatch(item):
    if item[0] == 'rerequest':
        return rerequest_case(item)
    if item[0] == 'handover':
        return handover_case(item)
    return case(item)


RULE = ('contention rounds on one project (6-12 shared leaves under 2-4 groups, a checksummed target below two consumers): 2-8 top-level '
        'invocations (redo-ifchange / redo, overlapping target sets, -j1..4, own, inherited and shared jobserver (all invocations of a round on one token pipe, so that tokens are stolen)) released within 60 ms, then an edit below '
        'the checksummed target and a second contention phase (redo-unlocked path); seeded script durations; in a fifth of the rounds redo processes are stopped and continued at random; delay hooks after child exit / '
        'before recording, after lock / before refresh, after commit, before the blocking lock wait; abort modes: a script failing in one '
        'invocation, an invocation that meets a hard error (dependency cycle) while its job runs, SIGTERM / SIGKILL to the whole session of '
        'one invocation part-way, the reader of one invocation\'s messages going away after 0-3 lines (`2>&1 | head`, with and without --no-log). Monitors: (1) unified trace: a second S of a target while an earlier script of it later proves to be alive; '
        '(2) hook records: a lock acquired while another process later proves to have held it, a script record while no process holds the '
        "target's lock, a lock released after the job ended but before the new state was committed; (3) /proc/locks sampled every 15 ms: a "
        'script alive across a sample must be covered by a WRITE lock on its byte; (4) hand-over scenario: a later redo-ifchange waiting for a '
        'target being built must not execute anything again; (5) re-request scenario: a target found clean earlier in the run is force-rebuilt by one job (slow script) while another job asks for it again: a request that begins after the script has started (trace order) cannot be answered before the script has ended. Non-trivial: >=4 scripts and >=4 lock acquisitions observed (hand-over: the '
        'second invocation really waited). Distinct: parameter tuple incl. seed.')
ASSUME = ['two sequential builds of one target by different invocations are legal (run ids differ); only overlap and decide-before-record are flagged',
          'killing only a redo parent while its scripts live on is not judged (no user-space lock can cover orphans)',
          'hook intervals are contained in the real holding intervals (acquire recorded after, release recorded before)']


def main(tier):
    quick = tier == 'quick'
    rnd = random.Random(common.seed() * 131 + (0 if quick else 5))
    col = Collector(PROP, tier, 'exploration', RULE, ASSUME, floor=15)
    t0 = time.time()
    budget = 110 if quick else 1000
    dl = [None, 'after_exit=~40', 'after_lock=~15', 'after_exit=~25,after_lock=~10,after_commit=~15', 'before_wait_lock=~30,after_exit=~20']
    items = []
    for rep in range(2 if quick else 40):
        for ninv in ((2, 3, 5) if quick else (2, 3, 5, 8)):
            for abort in (None, 'script-fails', 'script-fails-dir', 'error-exit', 'sigterm', 'sigkill', 'stderr-closed'):
                items.append((ninv, rnd.choice([1, 2, 4]), rnd.choice(dl), abort, rnd.randrange(10 ** 6)))
    for rep in range(1 if quick else 10):
        for d in (None, 'after_exit=150', 'after_exit=80,after_commit=60', 'after_lock=60'):
            for gap in (0.15, 0.25):
                for j2 in (1, 3):
                    items.append(('handover', d, gap, j2, rep))
    for rep in range(1 if quick else 8):
        for variant in ('one-tree', 'two-commands'):
            for pause in ('0.2', '0.3'):
                for j in (3, 4):
                    items.append(('rerequest', variant, pause, j, rep))
    rnd.shuffle(items)
    for r in common.pmap(dispatch, items, procs=5, deadline=t0 + budget):
        col.add(r)
    rc = col.finish()
    common.cleanup_scratch()
    return rc


def replay(path):
    import json
    d = json.load(open(path))
    common.ensure_built()
    it = d['replay']['item']
    r = dispatch(tuple(it))
    print(r.get('verdict'), r.get('violations') or r.get('why'))
    common.cleanup_scratch()
    if r.get('verdict') == 'violated':
        print('VIOLATION property=%s replay=%s' % (PROP, path))
        return 1
    return 0
