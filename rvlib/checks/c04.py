"""C04 - Targets are replaced atomically and only by complete, unambiguous output."""
import os
import random
import re
import subprocess
import threading
import time

from .. import common, scen
from ..framework import Collector

PROP = 'C04'

SIZES = [0, 1, 4096, 65537, 2 * 1024 * 1024]
BEHAVIOURS = ['stdout', 'd3', 'neither', 'both', 'write1', 'write1_d3', 'del3', 'fail_clean', 'partial_fail_stdout',
              'partial_fail_d3', 'kill_TERM', 'kill_KILL', 'd3_then_fail', 'symlink3_fail', 'symlink3_ok', 'mkdir3_fail']
PRIORS = ['absent', 'generated_stdout', 'generated_d3', 'generated_removed', 'user', 'absent+staletmp', 'generated_d3+staletmp',
          'absent+staletmplink', 'generated_stdout+staletmplink', 'generated_symlink', 'generated_danglink']


def gen_bytes(ch, size):
    return (ch * size).encode()


def emit_cmd(ch, size, dest, slow=False, chunks=4):
    """Shell that writes `size` bytes of character ch to dest ('' = stdout, else a file)."""
    redir = '' if dest == '' else ' >> "%s"' % dest
    if size == 0:
        return ': > "%s"' % dest if dest else 'true'
    if not slow or size < chunks:
        return 'head -c %d /dev/zero | tr "\\0" "%s"%s' % (size, ch, redir)
    part = size // chunks
    out = []
    for i in range(chunks):
        n = part if i < chunks - 1 else size - part * (chunks - 1)
        out.append('head -c %d /dev/zero | tr "\\0" "%s"%s' % (n, ch, redir))
        out.append('sleep 0.03')
    return '\n'.join(out)


def script_for(beh, size, slow):
    hdr = scen.TRACE_HDR + 'echo "S $1 $$ $PPID" >&9\n'
    e = lambda dest, sz=size: emit_cmd('n', sz, dest, slow)   # noqa: E731
    if beh == 'stdout':
        body = e('')
    elif beh == 'd3':
        body = e('$3')
    elif beh == 'neither':
        body = 'true'
    elif beh == 'both':
        body = e('$3') + '\n' + emit_cmd('n', max(1, min(size, 10)), '')
    elif beh == 'write1':
        body = e('$1') if size else 'echo direct > "$1"'
    elif beh == 'write1_d3':
        body = 'echo direct > "$1"\n' + e('$3')
    elif beh == 'del3':
        body = e('$3') + '\nrm -f "$3"'
    elif beh == 'fail_clean':
        body = 'exit 5'
    elif beh == 'partial_fail_stdout':
        body = emit_cmd('n', max(1, size // 2), '') + '\nexit 3'
    elif beh == 'partial_fail_d3':
        body = emit_cmd('n', max(1, size // 2), '$3') + '\nexit 3'
    elif beh == 'd3_then_fail':
        body = e('$3') + '\nexit 4'
    elif beh == 'symlink3_fail':
        # the output is made a symbolic link to something that is not there (yet), then the script fails
        body = 'ln -s "$1.v1.2.does-not-exist" "$3"\nexit 6'
    elif beh == 'symlink3_ok':
        # the output is a symbolic link to a data file the script made
        body = emit_cmd('n', size, '$1.data') + '\nln -s "$1.data" "$3"'
    elif beh == 'mkdir3_fail':
        # the script makes $3 a directory (as a script that builds a tree would), puts something inside, and fails
        body = 'mkdir "$3"\n' + emit_cmd('n', max(1, min(size, 4096)), '$3/part') + '\nexit 6'
    elif beh.startswith('kill_'):
        body = emit_cmd('n', max(1, size // 2), '$3') + '\nkill -s %s $$\nsleep 5' % beh.split('_')[1]
    else:
        raise ValueError(beh)
    return hdr + body + '\n'


def expected(beh, size, prior, old):
    """-> (ok?, target bytes or None(absent) or 'unknown', status text regex or None)"""
    if prior == 'user':
        return True, old, None           # left alone, exit 0 (C11's rule)
    if beh in ('stdout', 'd3'):
        if size == 0 and beh == 'stdout':
            return True, None, None      # nothing on stdout and no $3 = no output: target removed
        return True, gen_bytes('n', size), None
    if beh in ('neither', 'del3'):
        return True, None, None
    if beh == 'both':
        return False, old, r'exit 207'
    if beh in ('write1', 'write1_d3'):
        return False, 'unknown', r'exit 206'
    if beh == 'fail_clean':
        return False, old, r'exit 5'
    if beh in ('partial_fail_stdout', 'partial_fail_d3'):
        return False, old, r'exit 3'
    if beh == 'd3_then_fail':
        return False, old, r'exit 4'
    if beh.startswith('kill_'):
        return False, old, None
    if beh in ('symlink3_fail', 'mkdir3_fail'):
        return False, old, r'exit 6'
    if beh == 'symlink3_ok':
        return True, gen_bytes('n', size), None
    raise ValueError(beh)


class Inotify:
    def __init__(self, d):
        self.p = subprocess.Popen(['inotifywait', '-m', '-q', '-e', 'create,modify,delete,moved_to,moved_from,close_write',
                                   '--format', '%e %f', d], stdout=subprocess.PIPE, stderr=subprocess.PIPE, text=True)
        # no readiness signal with -q: give it a moment and verify with a probe file
        self.lines = []
        self.t = threading.Thread(target=self._rd, daemon=True)
        self.t.start()
        probe = os.path.join(d, '.rv-probe')
        t0 = time.time()
        while time.time() - t0 < 3:
            open(probe, 'w').close()
            time.sleep(0.01)
            if any(l.endswith('.rv-probe') for l in self.lines):
                break
        try:
            os.unlink(probe)
        except OSError:
            pass

    def _rd(self):
        for l in self.p.stdout:
            self.lines.append(l.rstrip('\n'))

    def stop(self):
        time.sleep(0.03)
        self.p.terminate()
        try:
            self.p.wait(timeout=2)
        except subprocess.TimeoutExpired:
            self.p.kill()
        self.t.join(timeout=2)
        return [l for l in self.lines if not l.endswith('.rv-probe')]


def case(item):
    beh, size, prior, slow, jitter, use_strace = item
    files = {}
    pj = scen.Project(files, 'c04')
    top = pj.top
    tpath = os.path.join(top, 't')
    anoms = []
    obs = dict(commands=0, reads=0, inotify_events=0)
    sets = {}
    try:
        old = None
        # ---- prior state
        stale = prior.endswith('+staletmp')
        stalelink = prior.endswith('+staletmplink')
        prior = prior.split('+')[0]
        if prior.startswith('generated'):
            ch = 'stdout' if prior == 'generated_stdout' else ('symlink3_ok' if prior == 'generated_symlink' else 'd3')
            common.write_file(os.path.join(top, 't.do'), script_for(ch, 3000, False).replace('tr "\\0" "n"', 'tr "\\0" "o"'))
            if prior == 'generated_danglink':
                # redo's own output is a symbolic link whose destination does not exist (yet)
                common.write_file(os.path.join(top, 't.do'), 'ln -s "$1.not-there-yet" "$3"\n')
            r, _ = pj.run(['redo-ifchange', 't'], verif_log=False)
            if r.rc != 0:
                return dict(verdict='inconclusive', why='could not create the prior state: %s' % r.err[-200:], sample=dict(item=list(item)))
            old = common.read_file(tpath)
            if prior == 'generated_removed':
                os.unlink(tpath)
                old = None
        elif prior == 'user':
            common.write_file(tpath, b'user content\n')
            old = b'user content\n'
        if stale:
            # what a run killed in the middle of a build leaves behind: a half-written $3
            common.write_file(os.path.join(top, 't.redo.tmp'), b'STALE-HALF-WRITTEN-OUTPUT\n')
        if stalelink:
            # ... or a $3 that a killed script had made a symbolic link whose destination never came to exist
            os.symlink('t.v0.9.never-written', os.path.join(top, 't.redo.tmp'))
        if beh == 'symlink3_ok' and os.path.lexists(os.path.join(top, 't.data')):
            os.unlink(os.path.join(top, 't.data'))
        common.write_file(os.path.join(top, 't.do'), script_for(beh, size, slow))
        os.utime(os.path.join(top, 't.do'), ns=(10 ** 18, 10 ** 18))
        want_ok, want_bytes, want_text = expected(beh, size, prior, old)
        new = gen_bytes('n', size)
        # ---- observers
        ino = Inotify(top)
        stop = threading.Event()
        reads = []

        def reader():
            while not stop.is_set():
                b = common.read_file(tpath)
                reads.append(b)
                time.sleep(0.0005)
        rt = None
        if slow:
            rt = threading.Thread(target=reader, daemon=True)
            rt.start()
        argv = ['redo', 't'] if prior != 'absent' or jitter % 2 else ['redo-ifchange', 't']
        st_file = os.path.join(top, '.strace')
        if use_strace:
            argv = ['strace', '-f', '-qq', '-o', st_file, '-e', 'trace=execve,clone,clone3,fork,vfork,rename,renameat,renameat2,unlink,unlinkat,openat,open,creat,truncate,ftruncate'] + argv
        r, _ = pj.run(argv, verif_log=False, timeout=60)
        obs['commands'] += 1
        stop.set()
        if rt:
            rt.join(timeout=2)
        events = ino.stop()
        obs['inotify_events'] = len(events)
        if r.status != 'exit':
            return dict(verdict='inconclusive', why='command did not finish: %s' % r.status, sample=dict(item=list(item)))
        text = r.err + r.out
        after = common.read_file(tpath)
        where = '%s/%s' % (beh, prior)
        # ---- verdicts
        for a in scen.crash_anoms(r, pj.logs_text(), 'c04'):
            anoms.append(dict(key='c04-' + a['key'], what=a['what']))
        if (r.rc == 0) != want_ok:
            anoms.append(dict(key='status:%s:%s%s' % (beh, 'expected-success' if want_ok else 'expected-failure', ':target-is-a-symbolic-link' if prior in ('generated_symlink', 'generated_danglink') and beh.startswith('write1') else ''),
                              what='%s: exit %s; output tail: %s' % (where, r.rc, text[-300:].replace('\n', ' | '))))
        if want_text and not re.search(want_text, text):
            anoms.append(dict(key='status-text:%s%s' % (beh, ':target-is-a-symbolic-link' if prior in ('generated_symlink', 'generated_danglink') and beh.startswith('write1') else ''), what='%s: expected %r in the output, got: %s' % (where, want_text, text[-300:].replace('\n', ' | '))))
        if want_bytes != 'unknown' and after != want_bytes:
            anoms.append(dict(key='target-bytes:%s:%s' % (beh, prior.split('_')[0]),
                              what='%s size=%d: target is %r (len %s), expected %r (len %s)' % (
                                  where, size, (after or b'')[:20], None if after is None else len(after),
                                  (want_bytes or b'')[:20] if want_bytes is not None else None, None if want_bytes is None else len(want_bytes))))
        if want_ok and want_bytes is None and os.path.lexists(tpath):
            anoms.append(dict(key='target-left-behind:%s:%s' % (beh, prior.split('_')[0]), what='%s: the target should be gone (no output), but a directory entry is still there (%s)' % (where, 'a dangling symbolic link' if os.path.islink(tpath) else 'a file')))
        left = [n for n in os.listdir(top) if n.endswith('.redo.tmp')]
        if left:
            anoms.append(dict(key='tmp-left-behind:%s' % beh, what='%s: %s left in the directory' % (where, left)))
        # reader: only complete old / complete new / absent are legal
        bad_reads = [b for b in reads if b is not None and b != old and b != new and not (beh.startswith('write1'))]
        obs['reads'] = len(reads)
        if bad_reads:
            anoms.append(dict(key='partial-read:%s' % beh, what='%s: a reader saw %d bytes (old %s, new %d)' % (
                where, len(bad_reads[0]), None if old is None else len(old), len(new))))
        # inotify: the target name may only appear through a rename into place or a delete
        if not beh.startswith('write1') and prior != 'user':
            tev = [e for e in events if e.split(' ', 1)[1] == 't']
            badev = [e for e in tev if not (e.startswith('MOVED_TO') or e.startswith('DELETE'))]
            if badev:
                anoms.append(dict(key='target-written-in-place:%s' % beh, what='%s: inotify saw %s on the target' % (where, badev[:4])))
            sets['target_event_kinds'] = sorted(set(e.split(' ')[0] for e in tev))
        if prior == 'user':
            tev = [e for e in events if e.split(' ', 1)[1] == 't']
            if tev:
                anoms.append(dict(key='user-file-touched', what='%s: inotify saw %s on the user file' % (where, tev[:4])))
        # ---- a failed build must not stand in the way of the next one: the rule is repaired and the target asked for again
        if not want_ok and prior != 'user' and not anoms:
            common.write_file(os.path.join(top, 't.do'), script_for('d3', 10, False).replace('tr "\\0" "n"', 'tr "\\0" "r"'))
            os.utime(os.path.join(top, 't.do'), ns=(11 * 10 ** 17, 11 * 10 ** 17))
            r2, _ = pj.run(['redo-ifchange', 't'], verif_log=False, timeout=60)
            obs['commands'] += 1
            obs['repairs_after_a_failed_build'] = 1
            after2 = common.read_file(tpath)
            left2 = [n for n in os.listdir(top) if n.endswith('.redo.tmp')]
            if r2.status == 'exit' and (r2.rc != 0 or after2 != b'r' * 10 or left2):
                anoms.append(dict(key='repair-after-failure:%s' % beh, what='%s: after the rule was repaired redo-ifchange exits %s, target %r, left %s: %s'
                                  % (where, r2.rc, (after2 or b'')[:20], left2, (r2.err + r2.out)[-300:].replace('\n', ' | '))))
        if use_strace and os.path.exists(st_file):
            anoms.extend(strace_check(st_file, tpath, beh))
            obs['strace_cases'] = 1
    finally:
        pj.close()
    res = dict(verdict='violated' if anoms else 'held', nontrivial=prior != 'user' or beh == 'stdout',
               shape=common.shash([beh, size, prior, slow]),
               sample=dict(behaviour=beh, size=size, prior=prior, slow_writer=slow, strace=use_strace), obs=obs, sets=sets)
    if anoms:
        res['violations'] = anoms
        res['replay'] = dict(kind='c04', item=list(item))
    return res


def strace_check(path, tpath, beh):
    """Attribute operations on the target path to processes (redo vs script)."""
    exe = {}
    out = []
    tname = os.path.basename(tpath)
    pending = {}
    parent = {}
    lines = open(path, errors='replace').read().split('\n')
    for line in lines:      # pass 1: who forked whom (the parent's clone line may come after the child's first calls)
        mf = re.match(r'(\d+)\s+(?:clone3?|v?fork)\(.*= (\d+)\s*$', line) or re.match(r'(\d+)\s+<\.\.\. (?:clone3?|v?fork) resumed>.*= (\d+)\s*$', line)
        if mf:
            parent[mf.group(2)] = mf.group(1)

    def program(pid):
        seen = 0
        while pid not in exe and pid in parent and seen < 50:
            pid = parent[pid]
            seen += 1
        return exe.get(pid, 'redo')        # the root of the tree is the redo command itself
    for line in lines:
        # under load strace splits a call into "<unfinished ...>" and "<... execve resumed>) = 0"
        mr = re.match(r'(\d+)\s+<\.\.\. execve resumed>.*= (-?\d+)', line)
        if mr:
            if mr.group(2) == '0' and mr.group(1) in pending:
                exe[mr.group(1)] = pending.pop(mr.group(1))
            continue
        # a forked child is the same program as its parent until it execs (a pipeline stage of the script opens its
        # redirections before exec)
        mf = re.match(r'(\d+)\s+(?:clone3?|v?fork)\(.*= (\d+)\s*$', line) or re.match(r'(\d+)\s+<\.\.\. (?:clone3?|v?fork) resumed>.*= (\d+)\s*$', line)
        if mf:
            exe.setdefault(mf.group(2), program(mf.group(1)))
            continue
        m = re.match(r'(\d+)\s+(\w+)\((.*)', line)
        if not m:
            continue
        pid, sc, rest = m.group(1), m.group(2), m.group(3)
        if sc in ('clone', 'clone3', 'fork', 'vfork'):
            continue
        if sc == 'execve':
            mm = re.match(r'"([^"]*)"', rest)
            if mm and ' = 0' in rest:
                exe[pid] = os.path.basename(mm.group(1))
            elif mm and '<unfinished' in rest:
                pending[pid] = os.path.basename(mm.group(1))
            continue
        is_redo = program(pid).startswith('redo')
        if not is_redo:
            continue
        if sc in ('openat', 'open', 'creat'):
            mm = re.search(r'"([^"]*)"', rest)
            if mm and os.path.basename(mm.group(1)) == tname and re.search(r'O_WRONLY|O_RDWR|O_TRUNC|O_CREAT', rest) and ' = -1' not in rest:
                out.append(dict(key='redo-opened-target-for-writing:%s' % beh, what=line.strip()[:200]))
        if sc in ('truncate',):
            mm = re.search(r'"([^"]*)"', rest)
            if mm and os.path.basename(mm.group(1)) == tname:
                out.append(dict(key='redo-truncated-target:%s' % beh, what=line.strip()[:200]))
    return out


def items(tier, rnd):
    out = []
    quick = tier == 'quick'
    for beh in BEHAVIOURS:
        for size in SIZES:
            for prior in PRIORS:
                if prior == 'user' and beh not in ('stdout', 'd3', 'neither', 'both', 'fail_clean'):
                    continue
                slow = size >= 65537 and beh in ('stdout', 'd3', 'both', 'partial_fail_stdout', 'partial_fail_d3', 'kill_TERM', 'kill_KILL', 'd3_then_fail')
                out.append((beh, size, prior, slow, 0, False))
    if not quick:
        out = out + [(b, s, p, sl, 1, False) for (b, s, p, sl, _, _) in out] + [(b, s, p, sl, 2, False) for (b, s, p, sl, _, _) in out if sl]
        out += [(b, s, p, False, 0, True) for b in BEHAVIOURS for s in (1, 4096) for p in ('absent', 'generated_stdout')]
    return out


RULE = ('product of script behaviour {stdout, $3, neither, both, writes $1, writes $1 and $3, creates then deletes $3, exit 5, partial output then '
        'exit 3 (stdout / $3), complete $3 then exit 4, killed by TERM / KILL after half the output, $3 made a dangling symbolic link / a directory with a file inside and then exit 6} x output size {0, 1, 4096, 65537, 2 MiB} x '
        'prior target state {absent, generated via stdout, generated via $3, generated then removed, user file}; one command each. Oracle: '
        'expected (exit ok?, status text 206/207/script status, target bytes, no *.redo.tmp) from the generator; an inotify log in which the '
        'target name may only appear as MOVED_TO or DELETE; for outputs >= 64 KiB a slow writer and a polling reader that must only ever see the '
        'complete old or complete new bytes; after every failing behaviour the rule is repaired and `redo-ifchange` must build the target (a failed build does not stand in the way of the next one); thorough adds an strace-attributed subset (no redo process opens the target for writing). '
        'Non-trivial: the script actually runs (all but most user-file cases). Distinct: (behaviour, size, prior, slow).')
ASSUME = ['a user-provided file at the target name is left alone with exit 0 (C11)', 'when the script itself writes $1 the previous content cannot be preserved by redo; only status 206 and temp cleanup are judged']


def main(tier):
    rnd = random.Random(common.seed())
    from .. import faults as _f
    col = Collector(PROP, tier, 'exploration', RULE + _f.LAYER_RULE % _f.LAYER_JUDGED[PROP], ASSUME, floor=20)
    its = items(tier, rnd)
    deadline = time.time() + (70 if tier == 'quick' else 700)
    for r in common.pmap(case, its, deadline=deadline):
        col.add(r)
    exhaustive = time.time() < deadline
    from .. import faults
    common.ensure_built()
    fn, fits, cov = faults.layer(PROP, tier, rnd)
    d2 = time.time() + (40 if tier == 'quick' else 600)
    for r in common.pmap(fn, fits, deadline=d2):
        col.add(r)
    rc = col.finish(extra_coverage=cov, exhaustive=(exhaustive and time.time() < d2))
    common.cleanup_scratch()
    return rc


def replay(path):
    import json
    d = json.load(open(path))
    if d['replay'].get('kind') == 'io-fault':
        from .. import faults
        return faults.replay(PROP, path)
    common.ensure_built()
    r = case(tuple(d['replay']['item']))
    print(r.get('verdict'), r.get('violations'))
    common.cleanup_scratch()
    if r.get('verdict') == 'violated':
        print('VIOLATION property=%s replay=%s' % (PROP, path))
        return 1
    return 0
