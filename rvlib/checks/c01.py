"""C01 - No stale target after a successful redo-ifchange."""
from .. import gen, histcheck

PROP = 'C01'


def prof(seed):
    k = seed % 4
    if k == 0:
        return gen.profile(p_stamp=0.35, top_bias=0.6, ops=dict(m_stamp=3, m_failfix=1, m_doswap=1, m_stampflip=1, edit_back=1))
    if k == 1:
        return gen.profile(jmax=4, p_keep=0.2, ops=dict(m_failfix=2, force=2))
    if k == 2:
        return gen.profile(ntgt=(6, 14), steps=(10, 25), p_stamp=0.2, ops=dict(m_stamp=1, m_dropdep=1, m_doswap=1, m_failfix=1, m_stampflip=1, edit_back=1))
    return gen.profile()


def nontrivial(r):
    ok_builds = [i for i, h in enumerate(r['hist']) if h['op'] == 'build' and h.get('rc') == 0]
    if len(ok_builds) < 2:
        return False
    edits = [i for i, h in enumerate(r['hist']) if h['op'] != 'build']
    later = [i for i in ok_builds[1:] if r['hist'][i].get('ran') and any(e < i for e in edits)]
    return bool(later)


CASE = histcheck.HistCase(PROP, prof, {'stale'}, nontrivial)

RULE = ('random programs (3-14 targets: plain, default.*-built, checksummed, always, ifcreate, dynamic deps, failing flags, '
        'tolerant optional deps, sub-directories) x random histories of edits / removals / .do edits / rule additions and removals / '
        'forced redo / redo-ifchange at -j1..4 with and without --keep-going; after every exit-0 command every target in the '
        'requested closure is compared byte-for-byte with the oracle evaluation of the graph. Non-trivial: >=2 successful builds '
        'with an edit in between and scripts executed by the later one. Distinct: hash of (graph shape, op sequence).')
ASSUME = ['harness edits always change mtime and happen between commands only',
          'target content is a pure function of script identity and declared dependency bytes (generated scripts)',
          'oracle = rvlib/prog.py expected(); model = rvlib/model.py']


def main(tier):
    import random
    from .. import common, faults
    n, budget = (240, 60) if tier == 'quick' else (6000, 780)
    common.ensure_built()
    fn, its, cov = faults.layer(PROP, tier, random.Random(common.seed()))
    return histcheck.run(PROP, tier, CASE, histcheck.seeds_for(PROP, tier, n), 'exploration', RULE + faults.LAYER_RULE % faults.LAYER_JUDGED[PROP], ASSUME, budget, floor=20,
                         layers=[(fn, its, cov, 40 if tier == 'quick' else 600)])


def replay(path):
    from .. import faults
    if faults.is_fault_replay(path):
        return faults.replay(PROP, path)
    from ..replay import replay_history
    return replay_history(PROP, path, {'stale'})
