"""C17 - redo-ood/targets/sources are safe over-approximations and change nothing."""
import os
import random

from .. import common, gen, histcheck, histrun
from ..histrun import Anomaly

PROP = 'C17'


def prof(seed):
    k = seed % 3
    base = dict(force_single=True, no_rm_stamp=True, jmax=1, p_multi=0.3, p_opt=0.05)
    if k == 0:
        return gen.profile(p_stamp=0.35, ops=dict(m_stamp=3, edit_i=3, rm=2, force=1, repeat=1, uwrite=1, urm=1), **base)
    if k == 1:
        return gen.profile(p_always=0.25, p_watch=0.3, ops=dict(watch=3, m_failfix=2, flag=2, rm=2, force=1), **base)
    return gen.profile(ntgt=(5, 11), steps=(8, 20), ops=dict(m_stamp=1, m_dropdep=1, m_doswap=1, m_failfix=1, uwrite=1, urm=1, rm=2), **base)


def listing(hr, cmd, cwd_rel=''):
    cwd = os.path.join(hr.top, cwd_rel) if cwd_rel else hr.top
    r = hr.redo([cmd], cwd=cwd, timeout=60)
    names = set()
    for line in r.out.split('\n'):
        if line.strip():
            names.add(os.path.normpath(os.path.join(cwd_rel, line)))
    return r, names


def queries(hr, step):
    """Run the three query commands and compare with the model's bounds and the file roles."""
    p, m = hr.p, hr.m
    out = []
    cwd_rel = 'sub' if (step % 2 == 1 and os.path.isdir(os.path.join(hr.top, 'sub')) and os.path.isdir(os.path.join(hr.top, '.redo'))) else ''
    r1, ood = listing(hr, 'redo-ood', cwd_rel)
    r2, tg = listing(hr, 'redo-targets', cwd_rel)
    r3, sr = listing(hr, 'redo-sources', cwd_rel)
    hr.stats['queries'] = hr.stats.get('queries', 0) + 3
    for r, nm in ((r1, 'redo-ood'), (r2, 'redo-targets'), (r3, 'redo-sources')):
        if r.rc != 0:
            out.append(Anomaly(cls='query-failed', key='query-failed:%s' % nm, what='%s exited %s: %s' % (nm, r.rc, r.err[-200:])))
    if out:
        return out
    if tg & sr:
        out.append(Anomaly(cls='roles', key='targets-and-sources-overlap', what='listed as both: %s' % sorted(tg & sr)))
    if not ood <= tg:
        out.append(Anomaly(cls='roles', key='ood-not-a-known-target', what='redo-ood lists %s which redo-targets does not' % sorted(ood - tg)))
    # ---- bounds on redo-ood
    will, maybe, stamp_dirty = set(), set(), set()
    for t in sorted(tg):
        if t not in p.targets or not m.is_target(t):
            continue
        ran, ctx = m.will_run([t])
        if t in ran:
            (maybe if (t in ctx['maybe'] or ctx['ambiguous']) else will).add(t)
            if m.R[t].stamped:
                stamp_dirty.add(t)
    upper = set(will) | set(maybe)
    for s_ in stamp_dirty:
        upper |= p.dependents(s_)
    # dependents of anything that will run, through checksummed intermediates, are legitimate too
    for t in list(will | maybe):
        upper |= p.dependents(t)
    missing = {t for t in will if t not in ood}
    # the keyed C02 finding (forced rebuild after a check in the same run) is invisible to redo-ood too
    missing = {t for t in missing if not any((t, d) in hr.late for d in m.R[t].seen)}
    if missing:
        out.append(Anomaly(cls='ood-lower', key='ood-misses-target-that-will-rebuild', what='redo-ood does not list %s, which redo-ifchange would rebuild (model reasons: %s)'
                           % (sorted(missing), {t: m.will_run([t])[1]['reasons'].get(t) for t in sorted(missing)})))
    extra = {t for t in ood if t in p.targets and t not in upper}
    if extra:
        out.append(Anomaly(cls='ood-upper', key='ood-lists-clean-target', what='redo-ood lists %s: not going to be rebuilt and not above a checksummed target that needs rebuilding' % sorted(extra)))
    hr.stats['ood_listed'] = hr.stats.get('ood_listed', 0) + len(ood)
    hr.stats['ood_beyond_lower_bound'] = hr.stats.get('ood_beyond_lower_bound', 0) + len(ood - will)
    # ---- roles
    for n in p.targets:
        r = m.R[n]
        exists = os.path.lexists(os.path.join(hr.top, n))
        if r.owner == 'redo' and r.built and not r.failed and (exists or r.phony) and n not in p.user:
            if r.phony and not exists:
                continue       # a target without output is "known" only through its record; either listing is accepted
            if n not in tg:
                out.append(Anomaly(cls='roles', key='generated-target-not-listed', what='%s was generated and is untouched but redo-targets omits it' % n))
        if n in p.user and (n in tg):
            out.append(Anomaly(cls='roles', key='user-file-listed-as-target', what='%s is user-owned but listed by redo-targets' % n))
    for n in list(p.sources):
        if n in tg:
            out.append(Anomaly(cls='roles', key='source-listed-as-target', what=n))
    for n in tg | sr:
        if not os.path.lexists(os.path.join(hr.top, n)) and not (n in p.targets and m.R[n].built):
            out.append(Anomaly(cls='roles', key='listed-file-neither-exists-nor-generated', what=n))
    # everything redo has a record of that exists must be listed by one of the two
    try:
        files, deps, integ = hr.db_rows()
        for row in files:
            name = row[1]
            if name.startswith('//'):
                continue
            if os.path.lexists(os.path.join(hr.top, name)) and name not in tg and name not in sr:
                out.append(Anomaly(cls='roles', key='known-existing-file-unlisted', what=name))
    except Exception:
        pass
    return out


def hook_with(hr, step, op, entry, anoms, ctx):
    if entry is not None and entry.get('status') != 'exit':
        return []
    found = queries(hr, step)
    # nothing listed right after a successful full build of a program without always nodes
    if entry is not None and entry.get('rc') == 0 and not any(t.get('always') for t in hr.p.targets.values()):
        tops = set(op[1])
        clo = set()
        for t in tops:
            hr.p.closure(t, clo)
        if clo >= set(n for n in hr.p.targets if n not in hr.p.user):
            r1, ood = listing(hr, 'redo-ood')
            if ood:
                found.append(Anomaly(cls='ood-after-build', key='ood-nonempty-after-full-build', what='listed %s right after a successful full build' % sorted(ood)))
            hr.stats['full_build_checks'] = hr.stats.get('full_build_checks', 0) + 1
    hr.anoms.extend(found)
    return []


def case(seed, ops=None, hook=None):
    """Twin replay: the same history without and with the query commands inserted after every step."""
    pa = pb = None
    if isinstance(seed, (tuple, list)) and seed[0] == 'fixed':
        from .. import fixedhist
        pa, ops = fixedhist.SCENARIOS[seed[1]]()
        pb, _ = fixedhist.SCENARIOS[seed[1]]()
        seed = 0
    pf = prof(seed)
    a = histrun.run_history(seed, pf, tag='c17a', ops=ops, prog=pa)
    b = histrun.run_history(seed, pf, tag='c17b', ops=[tuple(o) for o in a['ops']], hook=hook or hook_with, prog=pb)
    anoms = [x for x in b['anoms'] if x['cls'] in ('query-failed', 'roles', 'ood-lower', 'ood-upper', 'ood-after-build')]
    # differential verdict on traces only (which scripts ran, exit codes)
    # in a failing command which siblings were started before the failure became known depends on hash
    # order (redo-unlocked's argument list) and scheduling, so only its status is compared
    def norm(h):
        return (h.get('argv'), h.get('rc'), h.get('ran') if h.get('rc') == 0 else None)
    ha = [norm(h) for h in a['hist'] if h['op'] == 'build']
    hb = [norm(h) for h in b['hist'] if h['op'] == 'build']
    if not a['anoms'] and ha != hb:
        k = next((i for i, (x, y) in enumerate(zip(ha, hb)) if x != y), min(len(ha), len(hb)))
        anoms.append(Anomaly(cls='differential', key='queries-change-later-builds',
                             what='command #%d differs: without queries %s, with queries %s' % (k, ha[k] if k < len(ha) else None, hb[k] if k < len(hb) else None)))
    nb = sum(1 for h in b['hist'] if h['op'] == 'build')
    res = dict(verdict='violated' if anoms else 'held',
               nontrivial=nb >= 3 and b['stats'].get('ood_listed', 0) > 0,
               shape=common.shash([b['shape'], histcheck.op_shape(b['hist'])]),
               sample=dict(seed=seed, history=[(h['op'], h.get('argv') or h.get('args')) for h in b['hist']][:10]),
               obs=dict(b['stats'], twin_commands_compared=len(ha)), sets=dict(rebuild_reasons=b['reasons']))
    if any(x['cls'] == 'timeout' for x in a['anoms'] + b['anoms']):
        return dict(verdict='inconclusive', why='watchdog without stuck witness', sample=res['sample'])
    if anoms:
        res['violations'] = [dict(key=x['key'], what=x['what']) for x in anoms]
        res['replay'] = dict(kind='history', seed=seed, ops=a['ops'], hist=b['hist'], last_err=b['last_err'])
    return res


CASE = case

RULE = ('C01\'s generator at -j1; after every step redo-ood / redo-targets / redo-sources are run (alternating between the project top '
        'and a sub-directory as cwd) and compared with: lower bound = known targets whose redo-ifchange the reference model says would '
        'execute them (definite reasons only); upper bound = those plus direct/indirect dependents of targets that will run (checksummed '
        'ones in particular); empty right after a successful full build of a program without redo-always; targets and sources disjoint, '
        'roles per ownership automaton, every recorded file that exists is listed by exactly one of them. Differential: the same op '
        'list is replayed in a twin sandbox without queries; per-command (exit status, executed scripts) must be identical. '
        'Non-trivial: >=3 build commands and redo-ood listed something at some point. Distinct: (graph shape, op sequence).')
ASSUME = ['known target = a name redo-targets lists; never-built and failed-without-file names are not required in redo-ood',
          'differential verdict on traces and exit codes only (database-only differences are not observable by later commands)']


def main(tier):
    n, budget = (160, 80) if tier == 'quick' else (2500, 780)
    return histcheck.run(PROP, tier, case, histcheck.seeds_for(PROP, tier, n), 'exploration', RULE, ASSUME, budget, floor=20)


def replay(path):
    from ..replay import replay_history
    return replay_history(PROP, path)
