"""C09 - No interleaving crashes or deadlocks the scheduler."""
import os
import random
import re
import time

from .. import common, gate, gen, histrun, scen
from ..framework import Collector

PROP = 'C09'


# --------------------------------------------------------------------------- layer 1: gate enumeration

def gate_case(item):
    k, slots, nested, log, fail, plan = item
    steal = False
    lockwait = False
    if isinstance(log, str) and log.startswith('lockwait'):
        lockwait, log, nested = int(log[8:] or 1), True, True
    elif isinstance(log, str):
        steal, log = True, False
    g = gate.GateRun(k, slots, nested=nested, log=log, fail=fail, steal=steal, lockwait=lockwait)
    try:
        r = g.run(plan)
    finally:
        g.close()
    anoms = []
    pt = common.panic_text(r['out'])
    if pt or r['rc'] == 101:
        loc = re.search(r'panicked at ([^:\s]+:\d+)', pt or '')
        anoms.append(dict(key='panic:%s' % (loc.group(1) if loc else '?'), what='%s under plan %s' % (pt, plan)))
    elif r['status'] != 'exit':
        # every event that can still happen is delivered by default, so a run that does not end is stuck
        anoms.append(dict(key='gate-hang', what='no exit under plan %s; steps %s' % (plan, r['steps'][-4:])))
    else:
        want_rc = 0 if not fail else None
        if want_rc == 0 and r['rc'] != 0:
            anoms.append(dict(key='gate-nonzero:%s' % (scen.classify_error(r['out']) or 'rc=%s' % r['rc']),
                              what='all scripts succeed but exit %s under plan %s: %s' % (r['rc'], plan, r['out'][-300:])))
        if fail and r['rc'] == 0:
            anoms.append(dict(key='gate-zero-despite-failure', what='plan %s' % (plan,)))
        if r['tokens_back'] != r['expect_tokens']:
            anoms.append(dict(key='gate-tokens', what='tokens back %d, expected %d under plan %s' % (r['tokens_back'], r['expect_tokens'], plan)))
    ready = set()
    for l in r['woke']:
        m = re.search(r'ready=\[([^\]]*)\]', l)
        if m:
            ready.add(m.group(1) or '(timeout)')
    first_unplanned = r['steps'][len(plan)][0] if len(r['steps']) > len(plan) else None
    delivered = [tuple(s[1]) for s in r['steps']]
    res = dict(verdict='violated' if anoms else 'held', nontrivial=len(r['steps']) >= 2,
               shape=common.shash([k, slots, nested, log, steal, lockwait, sorted(fail), delivered]),
               sample=dict(kind='gate', k=k, slots=slots, nested=nested, log=log, steal=steal, lockwait=lockwait, fail=sorted(fail), plan=plan, delivered=delivered, rc=r['rc']),
               obs=dict(gate_paths=1, gate_steps=len(r['steps'])), sets=dict(ready_sets=sorted(ready)),
               avail=first_unplanned, item=item)
    if anoms:
        res['violations'] = anoms
        res['replay'] = dict(kind='gate', item=item, steps=r['steps'], out=r['out'][-1500:], woke=r['woke'][-30:])
    return res


def gate_layer(col, configs, depth, deadline):
    frontier = [(k, s, n, l, tuple(f), []) for (k, s, n, l, f) in configs]
    level = 0
    while frontier and level <= depth and time.time() < deadline:
        nxt = []
        for r in common.pmap(gate_case, frontier, deadline=deadline):
            col.add(r)
            if r.get('verdict') == 'inconclusive':
                continue
            item, avail = r['item'], r['avail']
            if avail and level < depth and r['verdict'] == 'held':
                for sub in gate.subsets(avail):
                    nxt.append((item[0], item[1], item[2], item[3], item[4], list(item[5]) + [sub]))
        frontier = nxt
        level += 1


# --------------------------------------------------------------------------- layer 2: stress scenarios

def _fan_files(n, depth2=False, jitter=False):
    files = {}
    leaves = ['l%d.leaf' % i for i in range(n)]
    sl = 'sleep 0.0$(( $$ % 4 ))' if jitter else ''
    files['default.leaf.do'] = scen.leaf_do(sl)
    if depth2:
        groups = [leaves[i::4] for i in range(4)]
        for gi, g in enumerate(groups):
            files['g%d.do' % gi] = scen.node_do(g)
        files['all.do'] = scen.node_do(['g%d' % gi for gi in range(4)])
    else:
        files['all.do'] = scen.node_do(leaves)
    return files, leaves


def stress_case(item):
    kind = item[0]
    rnd = random.Random(repr(item))
    anoms = []
    sets = {}
    obs = dict(stress_builds=1)
    sample = dict(kind=kind, params=list(item[1:]))
    pj = None
    try:
        if kind == 'fan':
            _, n, j, depth2, jitter, own = item
            files, leaves = _fan_files(n, depth2, jitter)
            pj = scen.Project(files, 'c09fan')
            if own:
                r, _ = pj.run(['redo', '-j%d' % j, 'all'])
            else:
                r, _ = pj.run(['redo-ifchange', 'all'], slots=j)
            rs = [r]
            expect_files = leaves + ['all']
        elif kind == 'alias':
            _, spell, j, cmd = item
            files = {'a.do': scen.leaf_do(), 'sub/b.do': scen.leaf_do(), 'sub/keep': 'x\n'}
            pj = scen.Project(files, 'c09alias')
            os.symlink('sub', os.path.join(pj.top, 'lnk'))       # the same directory under a second name
            spell = [x.replace('$TOP', pj.top) for x in spell]
            argv = ([cmd] + (['-j%d' % j] if cmd == 'redo' and j > 1 else [])) + list(spell)
            r, _ = pj.run(argv, slots=(j if cmd != 'redo' and j > 1 else None))
            rs = [r]
            expect_files = sorted(set(os.path.normpath(x) for x in spell))
        elif kind == 'twoinv':
            _, first, second, delay, j = item
            files = {'slow.do': scen.leaf_do('sleep 0.3'), 'top.do': scen.node_do(['slow', 'q1.leaf', 'q2.leaf']),
                     'default.leaf.do': scen.leaf_do('sleep 0.05')}
            pj = scen.Project(files, 'c09two')
            rs = pj.run_many([dict(argv=first), dict(argv=second, delay=delay)])
            expect_files = ['slow']
        elif kind == 'cross':
            _, j, n = item
            names = ['c%d' % i for i in range(n)]
            files = {'default.leaf.do': scen.leaf_do('sleep 0.03')}
            leaves = ['%s.leaf' % x for x in names]
            files['x.do'] = scen.node_do(leaves)
            files['y.do'] = scen.node_do(list(reversed(leaves)))
            files['top.do'] = scen.node_do(['x', 'y'])
            pj = scen.Project(files, 'c09cross')
            r, _ = pj.run(['redo', '-j%d' % j, 'top'])
            rs = [r]
            expect_files = ['top', 'x', 'y'] + leaves
        elif kind == 'crosspq':
            # two processes that share dependencies cross-wise (acyclic): p -> w1..wk x y; q -> y; y -> x.  If a process
            # acts on "a token / all jobs done" before it has recorded a job that just ended, it blocks on the other's
            # lock while still holding its own job's lock.  k quick targets in front vary the number of earlier wake-ups.
            _, k, j, rep = item
            ws = ['w%d.w' % i for i in range(k)]
            files = {'default.w.do': scen.leaf_do(), 'p.do': scen.node_do(ws + ['x', 'y'], '').replace('echo "S $1 $$ $PPID" >&9\n', 'echo "S $1 $$ $PPID" >&9\nsleep 0.3\n'),
                     'q.do': scen.node_do(['y']), 'x.do': scen.leaf_do('sleep 0.3'),
                     'y.do': scen.TRACE_HDR + 'echo "S $1 $$ $PPID" >&9\nsleep 1.2\nredo-ifchange x\necho y > $3\necho "E $1 $$ 0" >&9\n'}
            pj = scen.Project(files, 'c09pq')
            r, _ = pj.run(['redo', '-j%d' % j, 'p', 'q'], timeout=60, stuck_after=4.0)
            rs = [r]
            expect_files = ['p', 'q', 'x', 'y']
        elif kind == 'longwait':
            # a process that gave its slot away while waiting for a locked target finds every slot taken by long jobs
            # and has to wait for a token for more than a minute (bounded restatement of "any script duration")
            _, hold, log = item
            files = {'top.do': scen.node_do(['a', 'b', 'h1', 'h2']), 'x.do': scen.leaf_do('sleep 2'), 'a.do': scen.node_do(['x']),
                     'b.do': scen.TRACE_HDR + 'echo "S $1 $$ $PPID" >&9\nsleep 0.5\nredo-ifchange x\necho b > $3\necho "E $1 $$ 0" >&9\n',
                     'h1.do': scen.leaf_do('sleep %d' % hold), 'h2.do': scen.leaf_do('sleep %d' % hold)}
            pj = scen.Project(files, 'c09long')
            r, _ = pj.run(['redo', '-j2', 'top'], extra=({} if log else {'REDO_LOG': '0'}), timeout=hold + 120, stuck_after=hold + 60)
            rs = [r]
            expect_files = ['top', 'a', 'b', 'x', 'h1', 'h2']
        elif kind == 'cheatstop':
            # as 'cheat', while redo processes are stopped and continued at random (descheduling injection): a process that is
            # continued finds a token and its expired wait timer in the same wake-up
            _, shape, slots, own, seed = item
            from . import c08
            files, top = c08.make_graph(shape, 4, rnd, 'ok')
            pj = scen.Project(files, 'c09cst')
            st = ('waiters', seed, shape, slots) if seed % 2 else seed
            if own:
                r, _ = pj.run(['redo', '-j%d' % slots, top], stutter=st, stuck_after=8.0)
            else:
                r, _ = pj.run(['redo-ifchange', top], slots=slots, stutter=st, stuck_after=8.0)
            rs = [r]
            expect_files = [top, 'a']
        elif kind == 'cheat':
            # the followed job waits for a locked target, finds every slot taken afterwards and borrows one; with `redo`
            # (forced) it then starts a job on the borrowed slot
            _, shape, slots, own, seed = item
            from . import c08
            files, top = c08.make_graph(shape, 4, rnd, 'ok')
            pj = scen.Project(files, 'c09cheat')
            if own:
                r, _ = pj.run(['redo', '-j%d' % slots, top])
            else:
                r, _ = pj.run(['redo-ifchange', top], slots=slots)
            rs = [r]
            expect_files = [top, 'a']
        elif kind == 'linksdir':
            # only the `redo` program is installed (no redo-ifchange ... links on PATH): redo makes a private directory of links
            # for its scripts and removes it again, also when the build fails
            _, j, fail = item
            import shutil
            files, leaves = _fan_files(6)
            if fail:
                files['bad.do'] = 'exit 3\n'
                files['all.do'] = files['all.do'].replace('redo-ifchange ', 'redo-ifchange bad ', 1)
            pj = scen.Project(files, 'c09lnk')
            bdir = pj.top + '.bin'
            tdir = pj.top + '.tmp'
            os.makedirs(bdir)
            os.makedirs(tdir)
            shutil.copy2(os.path.join(common.ensure_built(), 'redo'), os.path.join(bdir, 'redo'))
            r, _ = pj.run([os.path.join(bdir, 'redo')] + (['-j%d' % j] if j > 1 else []) + ['all'], extra={'PATH': '/usr/bin:/bin', 'TMPDIR': tdir}, timeout=40)
            left = os.listdir(tdir)
            shutil.rmtree(bdir, ignore_errors=True)
            shutil.rmtree(tdir, ignore_errors=True)
            rs = [r] if not fail else []
            expect_files = leaves + ['all'] if not fail else []
            if fail:
                for a in scen.crash_anoms(r, pj.logs_text(), kind):
                    if a['cls'] == 'timeout':
                        return dict(verdict='inconclusive', why=a['what'][:500], sample=sample)
                    anoms.append(a)
                if r.rc == 0:
                    anoms.append(dict(cls='nonzero', key='zero-despite-failure:linksdir', what='a failing build exits 0'))
            if left:
                anoms.append(dict(cls='leftover', key='links-directory-left-behind:%s' % ('fail' if fail else 'ok'), what='TMPDIR still holds %s' % left[:3]))
        elif kind == 'brokenjs':
            # MAKEFLAGS names a jobserver whose descriptors are not open (make without "+" in front of the rule) or are no pipe:
            # redo has to say so and stop (or carry on serially) - not abort, not hang
            _, variant, cmd = item
            files, leaves = _fan_files(4)
            pj = scen.Project(files, 'c09bjs')
            extra = {'MAKEFLAGS': {'closed': ' -j --jobserver-auth=250,251', 'one-closed': ' -j --jobserver-fds=0,251',
                                   'garbage': ' -j --jobserver-auth=x,y', 'negative': '--jobserver-auth=-1,-1', 'huge': ' --jobserver-auth=99999999,99999998'}[variant]}
            r, _ = pj.run([cmd, 'all'], extra=extra, timeout=30)
            rs = []
            expect_files = []
            for a in scen.crash_anoms(r, pj.logs_text(), kind):
                if a['cls'] == 'timeout':
                    return dict(verdict='inconclusive', why=a['what'][:500], sample=sample)
                anoms.append(a)
            sets['broken_jobserver_exit'] = ['%s:%s' % (variant, r.rc)]
            if not anoms and r.rc == 0 and not os.path.exists(os.path.join(pj.top, 'all')):
                anoms.append(dict(cls='missing', key='missing-output:brokenjs', what='exit 0 without output'))
        elif kind == 'contend':
            _, ninv, j, seed = item
            files, leaves = _fan_files(12, True, True)
            pj = scen.Project(files, 'c09cont')
            cmds = []
            for i in range(ninv):
                c = rnd.choice([['redo', '-j%d' % j, 'all'], ['redo-ifchange', 'all'], ['redo-ifchange', 'g0', 'g1'], ['redo', 'g2']])
                cmds.append(dict(argv=c, delay=rnd.random() * 0.05))
            rs = pj.run_many(cmds)
            expect_files = ['all'] if any('all' in c['argv'] for c in cmds) else []
        else:
            raise ValueError(kind)
        logs = pj.logs_text()
        for r in rs:
            for a in scen.crash_anoms(r, logs, kind):
                if a['cls'] == 'timeout':
                    return dict(verdict='inconclusive', why=a['what'][:500], sample=sample)
                anoms.append(a)
            if r.status == 'exit' and r.rc != 0 and not any(a['cls'] == 'crash' for a in anoms):
                ec = scen.classify_error(r.err + r.out + logs) or 'rc=%s' % r.rc
                anoms.append(dict(cls='nonzero', key='nonzero:%s:%s' % (kind, ec),
                                  what='all scripts succeed but a command exits %s: %s' % (r.rc, (r.err or r.out)[-400:].replace('\n', ' | '))))
        if not anoms:
            for f in expect_files:
                if not os.path.exists(os.path.join(pj.top, f)):
                    anoms.append(dict(cls='missing', key='missing-output:%s' % kind, what='%s missing after exit 0' % f))
                    break
        tr = pj.trace_text()
        obs['scripts'] = tr.count('\nS ') + (1 if tr.startswith('S ') else 0)
        obs['wakeups'] = tr.count(' woke ')
        obs['borrowed_slots'] = tr.count(' cheat_take ')
        rd = set(re.findall(r'woke ready=\[([^\]]*)\]', tr))
        sets['ready_set_sizes'] = sorted(set(str(len([x for x in s.split(',') if x])) for s in rd))
        sets['stress_kinds'] = [kind]
    finally:
        if pj:
            pj.close()
    res = dict(verdict='violated' if anoms else 'held', nontrivial=True, shape=common.shash(list(item)), sample=sample, obs=obs, sets=sets)
    if anoms:
        res['violations'] = [dict(key=a['key'], what=a['what']) for a in anoms]
        res['replay'] = dict(kind='stress', item=list(item))
    return res


def randpar_prof(seed):
    return gen.profile(ntgt=(6, 14), jmax=8, p_flag=0.0, p_opt=0.0, steps=(4, 9),
                       ops=dict(build=8, edit_r=3, rm=2, force=2, doedit=1, m_stamp=1, flag=0, watch=1))


def randpar_case(seed):
    r = histrun.run_history(seed, randpar_prof(seed), tag='c09rp')
    mine = [a for a in r['anoms'] if a['cls'] in ('crash', 'stuck') or (a['cls'] == 'exit' and 'expected-ok' in a['key'])]
    res = dict(verdict='held', nontrivial=any(h['op'] == 'build' and h.get('j', 1) > 1 and h.get('ran') for h in r['hist']),
               shape=common.shash([r['shape'], [h.get('argv') for h in r['hist']]]),
               sample=dict(kind='random-parallel-history', seed=seed, commands=[(h.get('argv'), h.get('j'), h.get('rc')) for h in r['hist'] if h['op'] == 'build'][:8]),
               obs=dict(stress_builds=r['stats']['commands'], scripts=r['stats']['scripts']), sets=dict(stress_kinds=['random-parallel-history']))
    if any(a['cls'] == 'timeout' for a in r['anoms']):
        return dict(verdict='inconclusive', why='watchdog without stuck witness', sample=res['sample'])
    if mine:
        res['verdict'] = 'violated'
        res['violations'] = [dict(key=a['key'] if a['cls'] != 'exit' else 'nonzero:random:%s' % (scen.classify_error(r['last_err']) or a['key']), what=a['what']) for a in mine]
        res['replay'] = dict(kind='history', seed=seed, hist=r['hist'], last_err=r['last_err'])
    return res


def stress_items(tier, rnd):
    items = []
    quick = tier == 'quick'
    for n, j in ([(40, 8), (24, 4), (60, 16), (16, 2)] if quick else [(40, 8), (24, 4), (60, 16), (16, 2), (80, 8), (120, 16), (40, 3), (30, 2), (50, 12)]):
        for depth2 in (False, True):
            for jitter in (False, True):
                for own in (True, False):
                    for rep in range(1 if quick else 4):
                        items.append(('fan', n, j, depth2, jitter, own, rep))
    spells = [('a', './a'), ('a', 'a'), ('./a', 'sub/../a'), ('a', './a', 'sub/../a'), ('sub/b', 'sub/./b'), ('a', 'sub/b', './a'),
              ('sub/b', 'lnk/b'), ('lnk/b', 'sub/b', './lnk/b'), ('$TOP/lnk/b', 'sub/b'), ('a', 'lnk/../a')]
    for sp in spells:
        for j in (1, 2):
            for cmd in ('redo', 'redo-ifchange'):
                items.append(('alias', sp, j, cmd))
    for first in (['redo', 'slow'], ['redo-ifchange', 'slow'], ['redo', '-j2', 'top']):
        for second in (['redo', 'slow'], ['redo-ifchange', 'slow'], ['redo-ifchange', 'top']):
            for delay in ((0.05, 0.15) if quick else (0.02, 0.05, 0.1, 0.15, 0.25)):
                items.append(('twoinv', first, second, delay, 1))
    for j in (2, 3, 4):
        for n in (2, 3, 5):
            for rep in range(1 if quick else 6):
                items.append(('cross', j, n, rep))
    for ninv in ((2, 3) if quick else (2, 3, 5, 8)):
        for j in (2, 4):
            for rep in range(2 if quick else 12):
                items.append(('contend', ninv, j, rep))
    for nsh in (1, 2, 3):
        for extra in (1, 2):
            for own in (True, False):
                for f in ('cheat', 'cheatf'):
                    for rep in range(1 if quick else 5):
                        items.append(('cheat', '%s%d' % (f, nsh), nsh + extra, own, rep))
                        for srep in range(2 if quick else 6):
                            items.append(('cheatstop', '%s%d' % (f, nsh), nsh + extra, own, rep * 10 + srep))
    for j in (1, 3):
        for fail in (False, True):
            items.append(('linksdir', j, fail))
    for variant in ('closed', 'one-closed', 'garbage', 'negative', 'huge'):
        for cmd in ('redo', 'redo-ifchange'):
            items.append(('brokenjs', variant, cmd))
    for k in range(12):
        for j in ((3,) if quick else (2, 3, 4)):
            for rep in range(1 if quick else 3):
                items.append(('crosspq', k, j, rep))
    if not quick:
        items += [('longwait', 75, False), ('longwait', 75, True)]
    # the tuples carry a repetition index only to make them distinct
    return [it[:6] if it[0] == 'fan' else (it[:3] if it[0] == 'cross' else it) for it in items]


def dispatch(item):
    if item[0] == 'randpar':
        return randpar_case(item[1])
    return stress_case(item)


RULE = ('layer 1 (systematic): a select()-gate in one redo process lets the harness choose, for every wake-up of its event loop, '
        'which subset of {child i exits, a token arrives, the pending timer expires (alone or together with one I/O event)} is ready; breadth-first over all subsets per '
        'step to a depth bound, each path replayed from scratch (k<=3 children, 1-3 job slots, plain and nested one level, with and '
        'without log capture, with a failing child; lock-wait configurations in which the gated process also asks for a target that another invocation is building, gives its slot away, and has to find one again with nothing running - the only place where the timed token wait and borrowing a slot occur). layer 2 (stress): fans of 16-120 instant/jittered leaves at -j2..16 with own '
        'and inherited jobserver, the same target spelled several times on one command line, a second invocation arriving while a '
        'target is being built, crossed dependency orders (two shapes, 0-11 quick targets in front), 2-8 contending invocations, the followed job borrowing a slot after a lock hand-over (and starting a job on it), the same while redo processes are stopped and continued at random (SIGSTOP/SIGCONT descheduling injection), a process waiting more than a minute for a job token while two 75 s jobs hold every slot (thorough), only the `redo` program installed (private links directory made and removed), a MAKEFLAGS that names a jobserver whose descriptors are closed / garbage (must end with an error, not abort or hang), random parallel histories. Oracle: no panic / '
        'abort text or status in any redo process, no confirmed stuck state, exit 0 whenever all scripts succeed, tokens conserved '
        'on gate paths. Non-trivial: gate path with >=2 wake-ups, every stress build. Distinct: hash of scenario parameters and the '
        'delivered event sets.')
ASSUME = ['gate schedules are ones the OS could produce by descheduling the process before select()',
          'watchdog firing without a stuck witness is inconclusive, not a violation',
          'the liveness half is bounded: stuck = two quiescent samples 1.5 s apart with every process blocked on another member']


def main(tier):
    quick = tier == 'quick'
    col = Collector(PROP, tier, 'exploration', RULE, ASSUME, floor=30)
    t0 = time.time()
    budget = 100 if quick else 1100
    rnd = random.Random(common.seed())
    # layer 1
    cfgs = [(2, 2, False, False, ()), (2, 1, False, False, ()), (2, 3, False, False, ()), (2, 2, False, 'steal', ()), (2, 2, True, True, ()), (1, 2, True, 'lockwait', ())]
    if not quick:
        cfgs += [(3, 2, False, False, ()), (3, 3, False, False, ()), (2, 2, True, False, ()), (2, 2, False, True, ()),
                 (2, 2, False, False, (1,)), (3, 2, False, False, (2,)), (3, 1, False, False, ()), (3, 2, True, False, ()), (3, 2, True, True, ()), (2, 1, True, True, ()), (2, 2, True, 'lockwait', ()), (1, 3, True, 'lockwait', ()), (1, 1, True, 'lockwait', ()), (1, 2, True, 'lockwait2', ())]
    gate_layer(col, cfgs, depth=(3 if quick else 4), deadline=t0 + budget * 0.4)
    # layer 2
    items = stress_items(tier, rnd)
    rnd.shuffle(items)
    base = common.seed() * 7717 + (0 if quick else 99991)
    items += [('randpar', base * 1000 + i) for i in range(40 if quick else 1200)]
    for r in common.pmap(dispatch, items, deadline=t0 + budget):
        col.add(r)
    if not quick:
        from . import c09_valgrind
        c09_valgrind.run(col, deadline=time.time() + 240)
    rc = col.finish()
    common.cleanup_scratch()
    return rc


def replay(path):
    import json
    d = json.load(open(path))
    rp = d['replay']
    common.ensure_built()
    if rp['kind'] == 'gate':
        it = rp['item']
        r = gate_case((it[0], it[1], it[2], it[3], tuple(it[4]), it[5]))
    elif rp['kind'] == 'stress':
        r = stress_case(tuple(tuple(x) if isinstance(x, list) else x for x in rp['item']))
    else:
        r = randpar_case(rp['seed'])
    print(r.get('verdict'), r.get('violations'))
    common.cleanup_scratch()
    if r.get('verdict') == 'violated':
        print('VIOLATION property=%s replay=%s' % (PROP, path))
        return 1
    return 0
