"""C13 - .do rule selection order and script arguments."""
import itertools
import os
import posixpath
import random
import time

from .. import common, scen
from ..framework import Collector

PROP = 'C13'

DIRS = ['', 'd1', 'd1/d 2', 'd1/d 2/ü3']
NAMES = ['plain', 'a.b', 'a.b.c', '.hidden', 'trail.', 'a..b', '...', 'sp ace.x y', 'ünï.cöde.ext', 'a.b.c.d.e', 'x.tar.gz', '.a.b', 'q.']


def ref_candidates(abs_target):
    """Independent reference (written from the property text): absolute candidate paths in priority order,
    with the $1/$2 each would get."""
    d, name = posixpath.split(abs_target)
    out = [(posixpath.join(d, name + '.do'), d, name, name)]
    exts = [name[i:] for i, c in enumerate(name) if c == '.']
    cur = d
    while True:
        rel = posixpath.relpath(abs_target, cur)
        for e in exts:
            out.append((posixpath.join(cur, 'default' + e + '.do'), cur, rel, rel[:len(rel) - len(e)]))
        out.append((posixpath.join(cur, 'default.do'), cur, rel, rel))
        if cur == '/':
            break
        cur = posixpath.dirname(cur)
    return out


SCRIPT = '''printf '%%s\\n' "ID=%s" "A1=$1" "A2=$2" "A3=$3" "PWD=$(pwd -P)" > "$3"
'''


PYSCRIPT = """#!%s
import os, sys
with open(sys.argv[3], 'w') as f:
    f.write('ID=%s\\nA1=%%s\\nA2=%%s\\nA3=%%s\\nPWD=%%s\\n' %% (sys.argv[1], sys.argv[2], sys.argv[3], os.path.realpath(os.getcwd())))
"""


def make_script(ident, rnd):
    """A rule may name its own interpreter in a #! line (then redo runs that instead of `sh -e`); arguments and working directory
    are the same either way."""
    k = rnd.random()
    if k < 0.55:
        return SCRIPT % ident
    if k < 0.7:
        return '#!/bin/sh\n' + SCRIPT % ident
    if k < 0.8:
        return '#!/bin/sh -eu\n' + SCRIPT % ident
    if k < 0.9:
        return '#!/usr/bin/env sh\n' + SCRIPT % ident
    return PYSCRIPT % (rnd.choice(['/usr/bin/python3', '/usr/bin/env python3', '/usr/bin/python3 -E']), ident)


def spellings(top, reldir, name, rnd):
    rel = posixpath.join(reldir, name)
    sp = [('top', rel), ('top', './' + rel), ('top', posixpath.join(top, rel))]
    if reldir:
        first = reldir.split('/')[0]
        sp.append(('top', first + '/../' + rel))
        sp.append(('top', reldir.replace('/', '//') + '//' + name))
        sp.append((reldir, name))
        sp.append((reldir, './' + name))
        sp.append((first, posixpath.relpath(rel, first)))
    else:
        sp.append(('d1', '../' + name))
    return sp


def cmd_case(item):
    reldir, name, placement_seed, spell_idx, mutate = item
    rnd = random.Random(repr(item))
    pj = scen.Project({}, 'c13')
    top = os.path.realpath(pj.top)
    anoms = []
    obs = dict(commands=0)
    sets = {}
    try:
        for d in DIRS:
            os.makedirs(os.path.join(top, d), exist_ok=True)
        abs_t = posixpath.join(top, reldir, name) if reldir else posixpath.join(top, name)
        cands = ref_candidates(abs_t)
        inside = [c for c in cands if c[0].startswith(top + '/')]
        # placement: a random subset of the in-project candidates (at least one)
        k = rnd.randint(1, min(4, len(inside)))
        placed = set(rnd.sample(range(len(inside)), k))
        ids = {}
        for i in placed:
            path = inside[i][0]
            ids[path] = 'cand%d' % i
            common.write_file(path, make_script(ids[path], rnd))
        sp = spellings(top, reldir, name, rnd)
        cwd_rel, spelled = sp[spell_idx % len(sp)]
        cwd = top if cwd_rel == 'top' else os.path.join(top, cwd_rel)

        def check_round(tag):
            first = next((c for c in cands if os.path.exists(c[0])), None)
            # ---- redo-whichdo
            r, _ = pj.run(['redo-whichdo', spelled], cwd=cwd, verif_log=False)
            obs['commands'] += 1
            got = [posixpath.normpath(posixpath.join(cwd, l)) for l in r.out.split('\n') if l]
            want = []
            for c in cands:
                want.append(c[0])
                if os.path.exists(c[0]):
                    break
            if got != want:
                k_ = next((i for i, (a, b) in enumerate(zip(got, want)) if a != b), min(len(got), len(want)))
                anoms.append(dict(key='whichdo-order:%s' % tag, what='redo-whichdo %r from %s: position %d is %r, reference says %r (lists have %d/%d entries)'
                                  % (spelled, cwd_rel, k_, got[k_] if k_ < len(got) else None, want[k_] if k_ < len(want) else None, len(got), len(want))))
            if (r.rc == 0) != (first is not None):
                anoms.append(dict(key='whichdo-status:%s' % tag, what='exit %s with first existing candidate %s' % (r.rc, first)))
            sets.setdefault('whichdo_list_lengths', set()).add(len(got))
            # ---- the build itself
            r2, _ = pj.run(['redo-ifchange', spelled], cwd=cwd, verif_log=False)
            obs['commands'] += 1
            for a in scen.crash_anoms(r2, '', 'c13'):
                anoms.append(dict(key='c13-' + a['key'], what=a['what']))
            if first is None:
                return
            if r2.rc != 0:
                anoms.append(dict(key='build-failed:%s' % tag, what='redo-ifchange %r exited %s: %s' % (spelled, r2.rc, r2.err[-300:])))
                return
            body = common.read_file(abs_t)
            if body is None:
                anoms.append(dict(key='no-output:%s' % tag, what='target %s missing after exit 0' % abs_t))
                return
            kv = dict(l.split('=', 1) for l in body.decode('utf-8', 'replace').split('\n') if '=' in l)
            exp = dict(ID=ids[first[0]], A1=first[2], A2=first[3], A3=first[2] + '.redo.tmp', PWD=first[1])
            for key in ('ID', 'A1', 'A2', 'A3', 'PWD'):
                if kv.get(key) != exp[key]:
                    anoms.append(dict(key='script-%s:%s' % ({'ID': 'choice', 'A1': 'arg1', 'A2': 'arg2', 'A3': 'arg3', 'PWD': 'cwd'}[key], tag),
                                      what='target %s/%s via %s: %s is %r, reference says %r' % (reldir, name, posixpath.relpath(first[0], top), key, kv.get(key), exp[key])))
            sets.setdefault('chosen_kinds', set()).add('specific' if first[0].endswith('/' + name + '.do') else posixpath.basename(first[0]).count('.'))

        check_round('initial')
        if mutate and not anoms:
            cur = next((i for i, c in enumerate(inside) if os.path.exists(c[0])), None)
            if mutate == 'add-higher' and cur is not None and cur > 0:
                j = rnd.randrange(0, cur)
                path = inside[j][0]
                ids[path] = 'cand%d' % j
                common.write_file(path, make_script(ids[path], rnd))
                check_round('after-adding-higher-priority')
            elif mutate == 'remove-chosen' and cur is not None and len([c for c in inside if os.path.exists(c[0])]) >= 2:
                os.unlink(inside[cur][0])
                check_round('after-removing-chosen')
            elif mutate == 'repeat':
                before = os.stat(abs_t).st_mtime_ns if os.path.exists(abs_t) else None
                r3, _ = pj.run(['redo-ifchange', spelled], cwd=cwd, verif_log=False)
                after = os.stat(abs_t).st_mtime_ns if os.path.exists(abs_t) else None
                if before != after:
                    anoms.append(dict(key='rebuilt-without-change', what='a repeated redo-ifchange %r replaced the target' % spelled))
    finally:
        pj.close()
    res = dict(verdict='violated' if anoms else 'held', nontrivial=True, shape=common.shash(list(item)),
               sample=dict(dir=reldir, name=name, cwd=cwd_rel, spelled=spelled, mutate=mutate), obs=obs,
               sets={k: sorted(map(str, v)) for k, v in sets.items()})
    if anoms:
        res['violations'] = anoms
        res['replay'] = dict(kind='c13cmd', item=list(item))
    return res


def outside_case(item):
    """A fresh project whose first command runs in proj/sub and asks for ../other/<name>: the candidates are those of the
    target's real location; proj/sub (the directory in front of the ..) is no ancestor of the target and must not be searched."""
    name, rule_at, decoy, seed = item
    rnd = random.Random(repr(item))
    pj = scen.Project({}, 'c13o')
    top = os.path.realpath(pj.top)
    anoms = []
    obs = dict(commands=0)
    try:
        for d in ('proj/sub', 'proj/other'):
            os.makedirs(os.path.join(top, d))
        abs_t = posixpath.join(top, 'proj/other', name)
        cands = ref_candidates(abs_t)
        inside = [c for c in cands if c[0].startswith(top + '/')]
        # the rule: a default*.do at the chosen level (0 = proj/other, 1 = proj, 2 = scratch top)
        level_dir = [posixpath.join(top, 'proj/other'), posixpath.join(top, 'proj'), top][rule_at]
        mine = [c for c in inside if posixpath.dirname(c[0]) == level_dir and posixpath.basename(c[0]).startswith('default')]
        rule = rnd.choice(mine)
        common.write_file(rule[0], SCRIPT % 'rule')
        if decoy:
            common.write_file(posixpath.join(top, 'proj/sub', 'default.do'), SCRIPT % 'decoy')
        cwd = posixpath.join(top, 'proj/sub')
        spelled = '../other/' + name
        r, _ = pj.run(['redo-whichdo', spelled], cwd=cwd, verif_log=False)
        obs['commands'] += 1
        got = [posixpath.normpath(posixpath.join(cwd, l)) for l in r.out.split('\n') if l]
        want = []
        for c in cands:
            want.append(c[0])
            if os.path.exists(c[0]):
                break
        if got != want:
            k_ = next((i for i, (a, b) in enumerate(zip(got, want)) if a != b), min(len(got), len(want)))
            anoms.append(dict(key='whichdo-order:outside-first-cwd', what='redo-whichdo %r from proj/sub: position %d is %r, reference says %r'
                              % (spelled, k_, got[k_] if k_ < len(got) else None, want[k_] if k_ < len(want) else None)))
        # the same question asked from inside a running script (REDO_BASE and the other variables of a build are set there)
        common.write_file(posixpath.join(cwd, 'ask.do'), 'redo-whichdo "../other/%s" > "$3" || true\n' % name.replace('"', '\\"'))
        r3, _ = pj.run(['redo', 'ask'], cwd=cwd, verif_log=False)
        obs['commands'] += 1
        got3 = [posixpath.normpath(posixpath.join(cwd, l)) for l in (common.read_file(posixpath.join(cwd, 'ask')) or b'').decode('utf-8', 'replace').split('\n') if l]
        if r3.rc == 0 and got3 != want:
            k3 = next((i for i, (a, b) in enumerate(zip(got3, want)) if a != b), min(len(got3), len(want)))
            anoms.append(dict(key='whichdo-order:inside-a-script', what='redo-whichdo %r run by a script in proj/sub: %d entries, position %d is %r; from the shell the list has %d entries, there %r'
                              % (spelled, len(got3), k3, got3[k3] if k3 < len(got3) else None, len(want), want[k3] if k3 < len(want) else None)))
        r2, _ = pj.run(['redo-ifchange', spelled], cwd=cwd, verif_log=False)
        obs['commands'] += 1
        for a in scen.crash_anoms(r2, '', 'c13'):
            anoms.append(dict(key='c13-' + a['key'], what=a['what']))
        body = common.read_file(abs_t)
        if r2.rc != 0 or body is None:
            anoms.append(dict(key='build-failed:outside-first-cwd', what='redo-ifchange %r from proj/sub exited %s: %s' % (spelled, r2.rc, r2.err[-300:])))
        else:
            kv = dict(l.split('=', 1) for l in body.decode('utf-8', 'replace').split('\n') if '=' in l)
            exp = dict(ID='rule', A1=rule[2], A2=rule[3], A3=rule[2] + '.redo.tmp', PWD=rule[1])
            for key in ('ID', 'A1', 'A2', 'A3', 'PWD'):
                if kv.get(key) != exp[key]:
                    anoms.append(dict(key='script-%s:outside-first-cwd' % {'ID': 'choice', 'A1': 'arg1', 'A2': 'arg2', 'A3': 'arg3', 'PWD': 'cwd'}[key],
                                      what='../other/%s via %s: %s is %r, reference says %r' % (name, posixpath.relpath(rule[0], top), key, kv.get(key), exp[key])))
    finally:
        pj.close()
    res = dict(verdict='violated' if anoms else 'held', nontrivial=True, shape=common.shash(list(item)),
               sample=dict(kind='outside-first-cwd', name=name, rule_level=rule_at, decoy=decoy), obs=obs, sets=dict(chosen_kinds=['outside:%d' % rule_at]))
    if anoms:
        res['violations'] = anoms
        res['replay'] = dict(kind='c13out', item=list(item))
    return res


def latedir_case(item):
    """The target's directory does not exist at the first build (an ancestor rule creates it with mkdir -p); afterwards a
    higher-priority candidate is added inside the new directories: the next redo-ifchange must switch to it."""
    name, depth, where, seed = item
    rnd = random.Random(repr(item))
    pj = scen.Project({}, 'c13l')
    top = os.path.realpath(pj.top)
    anoms = []
    obs = dict(commands=0)
    try:
        reldir = '/'.join(['out', 'sub', 'deep'][:depth])
        abs_t = posixpath.join(top, reldir, name)
        cands = ref_candidates(abs_t)
        inside = [c for c in cands if c[0].startswith(top + '/')]
        # first rule: a default*.do in the project top (the only directory that exists)
        at_top = [c for c in inside if posixpath.dirname(c[0]) == top and posixpath.basename(c[0]).startswith('default')]
        first = rnd.choice(at_top)
        mk = 'mkdir -p "$(dirname "$3")"\n'
        common.write_file(first[0], mk + SCRIPT % 'first')
        spelled = posixpath.join(reldir, name)
        r, _ = pj.run(['redo-ifchange', spelled], cwd=top, verif_log=False)
        obs['commands'] += 1
        body = common.read_file(abs_t)
        if r.rc != 0 or body is None or b'ID=first' not in body:
            return dict(verdict='inconclusive', why='first build through the top-level rule failed: %s' % r.err[-200:], sample=dict(item=list(item)))
        # now a candidate with higher priority, somewhere inside the directories that did not exist before
        higher = [c for c in inside if inside.index(c) < inside.index(first) and posixpath.dirname(c[0]) != top]
        if where == 'specific':
            higher = [c for c in higher if c[0] == abs_t + '.do']
        elif where == 'nearest':
            higher = [c for c in higher if posixpath.dirname(c[0]) == posixpath.dirname(abs_t) and c[0] != abs_t + '.do']
        else:
            higher = [c for c in higher if posixpath.dirname(c[0]) != posixpath.dirname(abs_t)] or higher
        if not higher:
            return dict(verdict='held', nontrivial=False, shape='none', sample=dict(item=list(item)), obs=obs)
        new = rnd.choice(higher)
        common.write_file(new[0], SCRIPT % 'second')
        r1, _ = pj.run(['redo-whichdo', spelled], cwd=top, verif_log=False)
        r2, _ = pj.run(['redo-ifchange', spelled], cwd=top, verif_log=False)
        obs['commands'] += 2
        body = common.read_file(abs_t) or b''
        kv = dict(l.split('=', 1) for l in body.decode('utf-8', 'replace').split('\n') if '=' in l)
        chosen = next((c for c in cands if os.path.exists(c[0])), None)
        got = [posixpath.normpath(posixpath.join(top, l)) for l in r1.out.split('\n') if l]
        if not got or got[-1] != chosen[0]:
            anoms.append(dict(key='whichdo-order:late-directory', what='redo-whichdo ends at %r, first existing candidate is %r' % (got[-1:] and got[-1], chosen[0])))
        if r2.rc != 0:
            anoms.append(dict(key='build-failed:late-directory', what='exit %s: %s' % (r2.rc, r2.err[-200:])))
        elif kv.get('ID') != 'second' or kv.get('A1') != chosen[2] or kv.get('PWD') != chosen[1]:
            anoms.append(dict(key='script-choice:after-adding-higher-priority:late-directory',
                              what='%s was built by the top-level rule while its directory did not exist; %s was added afterwards, but the target still says ID=%s A1=%s PWD=%s'
                                   % (spelled, posixpath.relpath(new[0], top), kv.get('ID'), kv.get('A1'), kv.get('PWD'))))
    finally:
        pj.close()
    res = dict(verdict='violated' if anoms else 'held', nontrivial=True, shape=common.shash(list(item)),
               sample=dict(kind='late-directory', name=name, depth=depth, where=where), obs=obs, sets=dict(chosen_kinds=['late-directory:' + where]))
    if anoms:
        res['violations'] = anoms
        res['replay'] = dict(kind='c13late', item=list(item))
    return res


def samecmd_case(item):
    """Several targets handled by one redo process while the set of rules changes between their look-ups: the script of the first
    target installs a higher-priority default rule (a bootstrap rule), or the chosen rule removes itself.  Each look-up must see the
    candidates that exist at that moment (first existing one wins), as redo-whichdo does afterwards."""
    variant, how, ext, sub, seed = item
    pj = scen.Project({}, 'c13s')
    top = os.path.realpath(pj.top)
    anoms = []
    obs = dict(commands=0)
    try:
        d = 'd1/' if sub else ''
        if sub:
            os.makedirs(os.path.join(top, 'd1'))
        first, second = d + 'first.' + ext, d + 'second.' + ext
        hi = 'default.%s.do' % ext
        body = 'printf \'%%s\\n\' "ID=%s" "A1=$1" "A2=$2" > "$3"\n'
        if variant == 'installs':
            # default.do serves the first target and leaves default.<ext>.do behind for everything that comes later
            common.write_file(posixpath.join(top, 'default.do'),
                              'case "$1" in all) redo-ifchange "%s" "%s"; exit 0;; esac\n' % (first, second) +
                              '[ -e "%s" ] || printf \'%%s\\n\' \'printf "%%s\\n" "ID=high" "A1=$1" "A2=$2" > "$3"\' > "%s"\n' % (hi, hi) + body % 'low')
            want = {first: ('low', first, first), second: ('high', second, second[:-len(ext) - 1])}
        else:
            common.write_file(posixpath.join(top, 'default.do'), 'case "$1" in all) redo-ifchange "%s" "%s"; exit 0;; esac\n' % (first, second) + body % 'low')
            common.write_file(posixpath.join(top, hi), 'rm -f "%s"\n' % hi + body % 'high')
            want = {first: ('high', first, first[:-len(ext) - 1]), second: ('low', second, second)}
        if how == 'ifchange':
            argv = ['redo-ifchange', first, second]
        elif how == 'redo':
            argv = ['redo', first, second]
        else:
            argv = ['redo-ifchange', 'all']
        r, _ = pj.run(argv, cwd=top, verif_log=False)
        obs['commands'] += 1
        for a in scen.crash_anoms(r, '', 'c13'):
            anoms.append(dict(key='c13-' + a['key'], what=a['what']))
        if r.rc != 0:
            anoms.append(dict(key='build-failed:rules-change-within-a-command:%s' % variant, what='%s exited %s: %s' % (argv, r.rc, r.err[-300:].replace('\n', ' | '))))
        else:
            for t, (ident, a1, a2) in want.items():
                b = (common.read_file(posixpath.join(top, t)) or b'').decode('utf-8', 'replace')
                kv = dict(l.split('=', 1) for l in b.split('\n') if '=' in l)
                if (kv.get('ID'), kv.get('A1'), kv.get('A2')) != (ident, a1, a2):
                    anoms.append(dict(key='script-choice:rules-change-within-a-command:%s' % variant,
                                      what='%s (%s): %s says ID=%s $1=%s $2=%s, the first existing candidate at its look-up gives ID=%s $1=%s $2=%s'
                                           % (argv, variant, t, kv.get('ID'), kv.get('A1'), kv.get('A2'), ident, a1, a2)))
            rw, _ = pj.run(['redo-whichdo', second], cwd=top, verif_log=False)
            obs['commands'] += 1
            last = [l for l in rw.out.split('\n') if l][-1:]
            exp_last = hi if variant == 'installs' else 'default.do'
            if not last or posixpath.basename(last[0]) != exp_last:
                anoms.append(dict(key='whichdo-order:rules-change-within-a-command', what='redo-whichdo %s ends at %r, expected %s' % (second, last, exp_last)))
    finally:
        pj.close()
    res = dict(verdict='violated' if anoms else 'held', nontrivial=True, shape=common.shash(list(item)),
               sample=dict(kind='rules-change-within-a-command', variant=variant, how=how, ext=ext, sub=sub), obs=obs,
               sets=dict(chosen_kinds=['within-command:' + variant]))
    if anoms:
        res['violations'] = anoms
        res['replay'] = dict(kind='c13same', item=list(item))
    return res


def symlink_case(item):
    """The target is named through a symbolic link to a directory elsewhere (proj/link -> ../other): the candidates are those of the
    place the file really is in - for the build (which resolves the directory) and for redo-whichdo alike; the last entry that
    redo-whichdo prints is the rule that builds the target."""
    _, name, where, seed = item
    pj = scen.Project({}, 'c13y')
    top = os.path.realpath(pj.top)
    anoms = []
    obs = dict(commands=0)
    try:
        for d in ('proj', 'other'):
            os.makedirs(os.path.join(top, d))
        os.symlink('../other', os.path.join(top, 'proj', 'link'))
        common.write_file(posixpath.join(top, 'proj', 'default.do'), SCRIPT % 'beside-the-link')
        real_rule = {'other': posixpath.join(top, 'other', 'default.do'), 'above': posixpath.join(top, 'default.do')}[where]
        common.write_file(real_rule, SCRIPT % 'real-place')
        cwd = posixpath.join(top, 'proj')
        spelled = 'link/' + name
        r1, _ = pj.run(['redo-ifchange', spelled], cwd=cwd, verif_log=False)
        obs['commands'] += 1
        body = (common.read_file(posixpath.join(top, 'other', name)) or b'').decode('utf-8', 'replace')
        kv = dict(l.split('=', 1) for l in body.split('\n') if '=' in l)
        if r1.rc != 0 or kv.get('ID') != 'real-place':
            anoms.append(dict(key='script-choice:through-a-symlinked-directory', what='redo-ifchange %s (link -> ../other) exit %s, built by %r; the rule of the real directory chain is %s'
                              % (spelled, r1.rc, kv.get('ID'), posixpath.relpath(real_rule, top))))
        r2, _ = pj.run(['redo-whichdo', spelled], cwd=cwd, verif_log=False)
        obs['commands'] += 1
        got = [posixpath.normpath(posixpath.join(cwd, l)) for l in r2.out.split('\n') if l]
        last = os.path.realpath(got[-1]) if got else None
        if r2.rc != 0 or last != os.path.realpath(real_rule):
            anoms.append(dict(key='whichdo-order:through-a-symlinked-directory',
                              what='redo-whichdo %s ends at %r (exit %s); the build used %s' % (spelled, got[-1:] and posixpath.relpath(got[-1], top), r2.rc, posixpath.relpath(real_rule, top))))
    finally:
        pj.close()
    res = dict(verdict='violated' if anoms else 'held', nontrivial=True, shape=common.shash(list(item)),
               sample=dict(kind='through-a-symlinked-directory', name=name, rule=where), obs=obs, sets=dict(chosen_kinds=['symlinked-directory:' + where]))
    if anoms:
        res['violations'] = anoms
        res['replay'] = dict(kind='c13sym', item=list(item))
    return res


def nested_base_case(item):
    """The project base (the directory that holds .redo) is a sub-directory and the rule lives above it (a nested project built by
    the outer tree's default rule): the build finds the rule, redo-whichdo lists it - from the shell and from inside a script."""
    _, name, seed = item
    pj = scen.Project({}, 'c13n')
    top = os.path.realpath(pj.top)
    anoms = []
    obs = dict(commands=0)
    try:
        os.makedirs(os.path.join(top, 'proj'))
        cwd = posixpath.join(top, 'proj')
        abs_t = posixpath.join(cwd, name)
        cands = ref_candidates(abs_t)
        above = [c for c in cands if posixpath.dirname(c[0]) == top and posixpath.basename(c[0]).startswith('default')]
        rule = above[seed % len(above)]
        common.write_file(rule[0], SCRIPT % 'outer-rule')
        r1, _ = pj.run(['redo-ifchange', name], cwd=cwd, verif_log=False)
        obs['commands'] += 1
        body = (common.read_file(abs_t) or b'').decode('utf-8', 'replace')
        kv = dict(l.split('=', 1) for l in body.split('\n') if '=' in l)
        if r1.rc != 0 or kv.get('ID') != 'outer-rule':
            return dict(verdict='inconclusive', why='the outer rule did not build the nested target: %s' % r1.err[-200:], sample=dict(item=list(item)))
        want = []
        for c in cands:
            want.append(c[0])
            if os.path.exists(c[0]):
                break
        r2, _ = pj.run(['redo-whichdo', name], cwd=cwd, verif_log=False)
        got = [posixpath.normpath(posixpath.join(cwd, l)) for l in r2.out.split('\n') if l]
        common.write_file(posixpath.join(cwd, 'ask.do'), 'redo-whichdo "%s" > "$3" || true\n' % name.replace('"', '\\"'))
        r3, _ = pj.run(['redo', 'ask'], cwd=cwd, verif_log=False)
        obs['commands'] += 2
        got3 = [posixpath.normpath(posixpath.join(cwd, l)) for l in (common.read_file(posixpath.join(cwd, 'ask')) or b'').decode('utf-8', 'replace').split('\n') if l]
        for what, g in (('from-the-shell', got), ('inside-a-script', got3)):
            if g != want:
                anoms.append(dict(key='whichdo-order:rule-above-the-project-base:%s' % what,
                                  what='redo-whichdo %r %s lists %d candidates ending at %r; the build went through %d ending at %r'
                                       % (name, what, len(g), g[-1:] and posixpath.relpath(g[-1], top), len(want), posixpath.relpath(want[-1], top))))
    finally:
        pj.close()
    res = dict(verdict='violated' if anoms else 'held', nontrivial=True, shape=common.shash(list(item)),
               sample=dict(kind='rule-above-the-project-base', name=name), obs=obs, sets=dict(chosen_kinds=['above-base']))
    if anoms:
        res['violations'] = anoms
        res['replay'] = dict(kind='c13nb', item=list(item))
    return res


def direct_case(item):
    """possible_do_files called directly vs the reference, for enumerated names."""
    alphabet, maxlen, depth = item
    rows, paths = [], []
    dirs = ['/'] + ['/' + '/'.join(['p%d' % i for i in range(d)]) + '/' for d in range(1, depth + 1)]
    for n in range(1, maxlen + 1):
        for tup in itertools.product(alphabet, repeat=n):
            name = ''.join(tup)
            if name in ('.', '..'):
                continue
            for d in dirs:
                paths.append(d + name)
    # the same targets spelled with .., . and // (the candidates are those of the cleaned path)
    clean = list(paths)
    rnd = random.Random(repr(item))
    extra = []
    for p_ in rnd.sample(clean, min(len(clean), 400)):
        d_, b_ = posixpath.split(p_)
        alt = rnd.choice([d_.rstrip('/') + '/zz/../' + b_, d_.rstrip('/') + '/./' + b_, d_.rstrip('/') + '//' + b_, '/p0/..' + p_ if p_.startswith('/') else p_,
                          d_.rstrip('/') + '/zz/yy/../../' + b_])
        extra.append((alt, p_))
    paths = clean + [a for a, _ in extra]
    cleaned = dict(extra)
    out, rc, err = common.native_call('dofiles', [[p.encode()] for p in paths])
    if out is None:
        if 'panicked' in err:
            return dict(verdict='violated', nontrivial=True, shape='direct', sample=dict(kind='direct', alphabet=alphabet),
                        violations=[dict(key='direct-panic', what=err[-300:])], replay=dict(kind='direct', item=list(item)))
        return dict(verdict='inconclusive', why='native harness failed: %s' % err[-200:])
    anoms = []
    lens = set()
    for p, got in zip(paths, out):
        g = [bytes.fromhex(x).decode() for x in got if x]
        w = [c[0] for c in ref_candidates(cleaned.get(p, p))]
        lens.add(len(w))
        if g != w:
            anoms.append(dict(key='direct-candidate-order', what='possible_do_files(%r) = %r..., reference %r...' % (p, g[:4], w[:4])))
            if len(anoms) > 3:
                break
    res = dict(verdict='violated' if anoms else 'held', nontrivial=True, shape=common.shash(list(item)),
               sample=dict(kind='direct', alphabet=alphabet, maxlen=maxlen, depth=depth, paths=len(paths)),
               obs=dict(direct_calls=len(paths)), sets=dict(candidate_list_lengths=sorted(map(str, lens))))
    if anoms:
        res['violations'] = anoms
        res['replay'] = dict(kind='direct', item=list(item))
    return res


def dispatch(item):
    if item[0] == 'direct':
        return direct_case(item[1:])
    if item[0] == 'outside':
        return outside_case(item[1:])
    if item[0] == 'latedir':
        return latedir_case(item[1:])
    if item[0] == 'samecmd':
        return samecmd_case(item[1:])
    if item[0] == 'symlink':
        return symlink_case(item)
    if item[0] == 'nestedbase':
        return nested_base_case(item)
    return cmd_case(item[1:])


RULE = ('command level: target paths at depth 0-3 (directory names with a space and a non-ASCII character), 13 basename shapes (0-4 dots, '
        'leading/trailing/consecutive dots, spaces, unicode), a random non-empty subset of the in-project candidates present, the target '
        'spelled in 4-8 ways (./, x/../, //, absolute, from sub-directories); redo-whichdo output and the ID/$1/$2/$3/cwd echoed by the '
        'executed script are compared with an independent reference written from the property text; then one mutation (add a higher-priority '
        'candidate / remove the chosen one / repeat) and the comparison again; fresh projects whose first command runs in proj/sub and asks for '
        '../other/<name> (rule 0-2 levels above the target, a decoy default.do in proj/sub); targets whose directory is created by the rule itself (mkdir -p) and gets a higher-priority rule afterwards; a project base that is a sub-directory with the rule above it (redo-whichdo from the shell and from inside a script lists what the build went through); a target named through a symbolic link to a directory elsewhere (the candidates are those of the real place, for the build and for redo-whichdo alike); two targets handled by one redo process (one command line, or one nested redo-ifchange) where the script of the first target installs a higher-priority default rule or the chosen rule removes itself: each look-up sees the candidates that exist at that moment. Direct level (clean and .././/-spelled paths): possible_do_files() for every basename over '
        'small alphabets up to a length bound x directory depth vs the same reference. Every case is non-trivial; distinct = parameter tuple.')
ASSUME = ['ancestors of the scratch root contain no default*.do (checked at start-up)', 'targets whose spelling resolves to an existing directory are not generated']


def main(tier):
    quick = tier == 'quick'
    rnd = random.Random(common.seed())
    col = Collector(PROP, tier, 'exploration', RULE, ASSUME, floor=20)
    common.ensure_native()
    items = []
    muts = ['add-higher', 'remove-chosen', 'repeat', None]
    for d in DIRS:
        for n in NAMES:
            for rep in range(2 if quick else 12):
                items.append(('cmd', d, n, rnd.randrange(10 ** 6), rnd.randrange(8), muts[(rep + len(n)) % 4]))
    for n in NAMES:
        for rule_at in (0, 1, 2):
            for decoy in (True, False):
                if quick and (len(n) + rule_at) % 2:
                    continue
                items.append(('outside', n, rule_at, decoy, rnd.randrange(1000)))
    for n in [x for x in NAMES if '.' in x.strip('.')][:(4 if quick else 99)]:
        for depth in (1, 2, 3):
            for where in ('specific', 'nearest', 'between'):
                items.append(('latedir', n, depth, where, rnd.randrange(1000)))
    for n in (NAMES[:6] if quick else NAMES):
        items.append(('nestedbase', n, rnd.randrange(1000)))
    for n in (NAMES[:4] if quick else NAMES):
        for where in ('other', 'above'):
            items.append(('symlink', n, where, rnd.randrange(1000)))
    for variant in ('installs', 'removes'):
        for how in ('ifchange', 'redo', 'nested'):
            for ext in (('x', 'tar.gz') if quick else ('x', 'tar.gz', 'a.b.c', 'y z')):
                for sub in (False, True):
                    items.append(('samecmd', variant, how, ext, sub, rnd.randrange(1000)))
    rnd.shuffle(items)
    items = [('direct', 'a.x', 5 if quick else 7, 2 if quick else 3), ('direct', 'ab. ', 4 if quick else 5, 2), ('direct', '.é-', 4 if quick else 6, 1)] + items
    deadline = time.time() + (75 if quick else 700)
    for r in common.pmap(dispatch, items, deadline=deadline):
        col.add(r)
    if not quick:
        from . import memcheck_layer
        memcheck_layer.run(col, PROP, ('dofiles',), time.time() + 300)
        from . import miri_layer
        miri_layer.unit_tests(col, PROP, ('paths::tests',), time.time() + 400)     # (the crate's own candidate-order vectors, under Miri)
    rc = col.finish()
    common.cleanup_scratch()
    return rc


def replay(path):
    import json
    d = json.load(open(path))
    common.ensure_built()
    it = d['replay']['item']
    r = nested_base_case(tuple(it)) if d['replay']['kind'] == 'c13nb' else symlink_case(tuple(it)) if d['replay']['kind'] == 'c13sym' else samecmd_case(tuple(it)) if d['replay']['kind'] == 'c13same' else direct_case(tuple(it)) if d['replay']['kind'] == 'direct' else (outside_case(tuple(it)) if d['replay']['kind'] == 'c13out' else (latedir_case(tuple(it)) if d['replay']['kind'] == 'c13late' else cmd_case(tuple(it))))
    print(r.get('verdict'), r.get('violations'))
    common.cleanup_scratch()
    if r.get('verdict') == 'violated':
        print('VIOLATION property=%s replay=%s' % (PROP, path))
        return 1
    return 0
