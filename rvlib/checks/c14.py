"""C14 - redo-ifcreate and redo-always dependencies."""
import os

from .. import common, gen, histcheck, scen
from ..histrun import Anomaly

PROP = 'C14'


def prof(seed):
    k = seed % 3
    base = dict(p_watch=0.6, p_watch_link=0.35, p_always=0.4, p_stamp=0.15, p_flag=0.05, p_dyn=0.1, p_opt=0.0, p_multi=0.4)
    if k == 0:
        return gen.profile(ops=dict(watch=8, build=8, repeat=4, edit_r=2, edit_i=1, rm=1, m_watchduring=3), **base)
    if k == 1:
        return gen.profile(jmax=8, ntgt=(4, 10), ops=dict(watch=6, build=8, repeat=4, edit_r=2, force=1, m_watchduring=2), **base)
    return gen.profile(ntgt=(5, 12), steps=(8, 22), ops=dict(watch=6, build=8, repeat=3, doedit=1, m_stamp=1, m_watchduring=2), **base)


def relevant(a):
    k = a['key']
    return not a.get('cont') and ('watch' in k or 'always' in k or 'created' in a.get('what', '') or a['cls'] in ('multi', 'exit', 'ifcreate-existing'))


def hook(hr, step, op, entry, anoms, ctx):
    # once per history: redo-ifcreate on an existing path must fail
    if step == 1 and not getattr(hr, '_ifc_done', False):
        hr._ifc_done = True
        common.write_file(os.path.join(hr.top, 'ifc_exists.do'), 'echo x > present\nredo-ifcreate present\necho never > $3\n')
        common.write_file(os.path.join(hr.top, 'ifc_absent.do'), 'redo-ifcreate not_there_$$\necho ok > $3\n')
        # the same from a script that has changed directory: the path is the script's, relative to where it stands now
        common.write_file(os.path.join(hr.top, 'ifc_cd_exists.do'), 'mkdir -p ifcd\necho x > ifcd/present2\ncd ifcd\nredo-ifcreate present2\necho never > $3\n')
        common.write_file(os.path.join(hr.top, 'ifc_cd_absent.do'), 'echo x > here_only\nmkdir -p ifcd2\ncd ifcd2\nredo-ifcreate here_only\ncd ..\necho ok > $3\n')
        r1 = hr.redo(['redo-ifchange', 'ifc_exists'])
        r2 = hr.redo(['redo-ifchange', 'ifc_absent'])
        r3 = hr.redo(['redo-ifchange', 'ifc_cd_exists'])
        r4 = hr.redo(['redo-ifchange', 'ifc_cd_absent'])
        out = []
        if r3.rc == 0:
            out.append(Anomaly(cls='ifcreate-existing', key='ifcreate-on-existing-path-accepted:after-cd', what='a script in another directory (cd ifcd) declared redo-ifcreate for a file that exists there; exit 0'))
        if r4.rc != 0:
            out.append(Anomaly(cls='ifcreate-existing', key='ifcreate-on-absent-path-rejected:after-cd', what='redo-ifcreate of a path that is absent where the script stands (but exists where it started) failed: %s' % r4.err[-200:]))
        hr.stats['ifcreate_error_probes'] = hr.stats.get('ifcreate_error_probes', 0) + 1
        if r1.rc == 0:
            out.append(Anomaly(cls='ifcreate-existing', key='ifcreate-on-existing-path-accepted', what='redo-ifcreate of an existing file exited 0'))
        if r2.rc != 0:
            out.append(Anomaly(cls='ifcreate-existing', key='ifcreate-on-absent-path-rejected', what='redo-ifcreate of an absent path failed: %s' % r2.err[-200:]))
        hr.anoms.extend(out)
    if entry is not None and ctx is not None:
        p = hr.p
        alw = [n for n in ctx['ran'] if p.targets[n].get('always')]
        hr.stats['always_executions'] = hr.stats.get('always_executions', 0) + len(alw)
        hr.stats['created_triggers'] = hr.stats.get('created_triggers', 0) + sum(1 for w in ctx['reasons'].values() if (w or '').startswith('created:'))
    return []


def nontrivial(r):
    return any(x.startswith('created/') or x.startswith('always/') for x in r['reasons']) and \
        sum(1 for h in r['hist'] if h['op'] == 'build') >= 3


CASE = histcheck.HistCase(PROP, prof, {'overbuild', 'underbuild', 'multi', 'exit', 'ifcreate-existing', 'stale'}, nontrivial, hook=hook, keyfilter=relevant)

RULE = ('graphs mixing redo-ifcreate watchers (standard idiom: ifchange if the path exists, else ifcreate), redo-always nodes with 1-6 '
        'dependents and ordinary declarations at depth 0-3; histories create / delete / edit the watched paths across runs (and let a watched path appear while the script that declared it is still running, after its redo-ifcreate) with '
        'unrelated edits in between, -j1..8. Oracle: executed multiset per command vs reference model (watcher runs at the first '
        'redo-ifchange after the path exists and not before; always-target exactly once per top-level run that needs it); '
        'plus: redo-ifcreate on an existing path must fail, on an absent path must succeed, also from a script that has changed directory (the path counts from where the script stands). Non-trivial: a rebuild caused by a '
        'created path or by redo-always was observed and >=3 commands. Distinct: (graph shape, op sequence).')
ASSUME = ['reference model rvlib/model.py', 'anomalies are counted here only if the target involved is an ifcreate watcher / always node (or a command-level exit mismatch)']


def main(tier):
    n, budget = (240, 70) if tier == 'quick' else (5000, 780)
    return histcheck.run(PROP, tier, CASE, histcheck.seeds_for(PROP, tier, n), 'exploration', RULE, ASSUME, budget, floor=20)


def replay(path):
    from ..replay import replay_history
    return replay_history(PROP, path)
