"""C14 - redo-ifcreate and redo-always dependencies."""
import os

from .. import common, gen, histcheck, scen
from ..histrun import Anomaly

PROP = 'C14'


def prof(seed):
    k = seed % 3
    base = dict(p_watch=0.6, p_watch_link=0.35, p_always=0.4, p_stamp=0.15, p_flag=0.05, p_dyn=0.1, p_opt=0.0, p_multi=0.4)
    if k == 0:
        return gen.profile(ops=dict(watch=8, build=8, repeat=4, edit_r=2, edit_i=1, rm=1, m_watchduring=3), **base)
    if k == 1:
        return gen.profile(jmax=8, ntgt=(4, 10), ops=dict(watch=6, build=8, repeat=4, edit_r=2, force=1, m_watchduring=2), **base)
    return gen.profile(ntgt=(5, 12), steps=(8, 22), ops=dict(watch=6, build=8, repeat=3, doedit=1, m_stamp=1, m_watchduring=2), **base)


def relevant(a):
    k = a['key']
    return not a.get('cont') and ('watch' in k or 'always' in k or 'created' in a.get('what', '') or a['cls'] in ('multi', 'exit', 'ifcreate-existing'))


def hook(hr, step, op, entry, anoms, ctx):
    # once per history: redo-ifcreate on an existing path must fail
    if step == 1 and not getattr(hr, '_ifc_done', False):
        hr._ifc_done = True
        common.write_file(os.path.join(hr.top, 'ifc_exists.do'), 'echo x > present\nredo-ifcreate present\necho never > $3\n')
        common.write_file(os.path.join(hr.top, 'ifc_absent.do'), 'redo-ifcreate not_there_$$\necho ok > $3\n')
        # the same from a script that has changed directory: the path is the script's, relative to where it stands now
        common.write_file(os.path.join(hr.top, 'ifc_cd_exists.do'), 'mkdir -p ifcd\necho x > ifcd/present2\ncd ifcd\nredo-ifcreate present2\necho never > $3\n')
        common.write_file(os.path.join(hr.top, 'ifc_cd_absent.do'), 'echo x > here_only\nmkdir -p ifcd2\ncd ifcd2\nredo-ifcreate here_only\ncd ..\necho ok > $3\n')
        r1 = hr.redo(['redo-ifchange', 'ifc_exists'])
        r2 = hr.redo(['redo-ifchange', 'ifc_absent'])
        r3 = hr.redo(['redo-ifchange', 'ifc_cd_exists'])
        r4 = hr.redo(['redo-ifchange', 'ifc_cd_absent'])
        out = []
        if r3.rc == 0:
            out.append(Anomaly(cls='ifcreate-existing', key='ifcreate-on-existing-path-accepted:after-cd', what='a script in another directory (cd ifcd) declared redo-ifcreate for a file that exists there; exit 0'))
        if r4.rc != 0:
            out.append(Anomaly(cls='ifcreate-existing', key='ifcreate-on-absent-path-rejected:after-cd', what='redo-ifcreate of a path that is absent where the script stands (but exists where it started) failed: %s' % r4.err[-200:]))
        hr.stats['ifcreate_error_probes'] = hr.stats.get('ifcreate_error_probes', 0) + 1
        if r1.rc == 0:
            out.append(Anomaly(cls='ifcreate-existing', key='ifcreate-on-existing-path-accepted', what='redo-ifcreate of an existing file exited 0'))
        if r2.rc != 0:
            out.append(Anomaly(cls='ifcreate-existing', key='ifcreate-on-absent-path-rejected', what='redo-ifcreate of an absent path failed: %s' % r2.err[-200:]))
        hr.anoms.extend(out)
    if entry is not None and ctx is not None:
        p = hr.p
        alw = [n for n in ctx['ran'] if p.targets[n].get('always')]
        hr.stats['always_executions'] = hr.stats.get('always_executions', 0) + len(alw)
        hr.stats['created_triggers'] = hr.stats.get('created_triggers', 0) + sum(1 for w in ctx['reasons'].values() if (w or '').startswith('created:'))
    return []


def nontrivial(r):
    return any(x.startswith('created/') or x.startswith('always/') for x in r['reasons']) and \
        sum(1 for h in r['hist'] if h['op'] == 'build') >= 3


CASE = histcheck.HistCase(PROP, prof, {'overbuild', 'underbuild', 'multi', 'exit', 'ifcreate-existing', 'stale'}, nontrivial, hook=hook, keyfilter=relevant)

RULE = ('graphs mixing redo-ifcreate watchers (standard idiom: ifchange if the path exists, else ifcreate), redo-always nodes with 1-6 '
        'dependents and ordinary declarations at depth 0-3; histories create / delete / edit the watched paths across runs (and let a watched path appear while the script that declared it is still running, after its redo-ifcreate) with '
        'unrelated edits in between, -j1..8. Oracle: executed multiset per command vs reference model (watcher runs at the first '
        'redo-ifchange after the path exists and not before; always-target exactly once per top-level run that needs it); '
        'plus: redo-ifcreate on an existing path must fail, on an absent path must succeed, also from a script that has changed directory (the path counts from where the script stands). Non-trivial: a rebuild caused by a '
        'created path or by redo-always was observed and >=3 commands. Distinct: (graph shape, op sequence). '
        'Not-before layer: T watches F with redo-ifcreate, F never exists, and in the same runs another script tries to build F, fails (no rule / failing rule) '
        'and carries on, in both orders and at -j1/-j3: over three commands T runs exactly once. '
        'Appears-as layer: the watched path comes into existence as a regular file, an empty file, a directory (empty / with content), a symbolic link to a '
        'directory or to a file, or a fifo; directly or below directories that did not exist either; watcher requested directly or from below: runs [1,0,1,0] over four commands.')
ASSUME = ['reference model rvlib/model.py', 'anomalies are counted here only if the target involved is an ifcreate watcher / always node (or a command-level exit mismatch)']


def notbefore_case(item):
    """"Not before": T declares `redo-ifcreate F` and F never comes into existence, while in the same runs somebody else tries to
    build F and fails (no rule for it, or a rule that fails without output) and carries on.  Nothing T declared has happened, so T
    runs once - in the first command - and never again."""
    _, why, order, j, seed = item
    files = {
        'T.do': scen.TRACE_HDR + 'echo "S $1 $$ $PPID" >&9\n[ -e F ] && redo-ifchange F || redo-ifcreate F\necho t > "$3"\necho "E $1 $$ 0" >&9\n',
        'U.do': scen.TRACE_HDR + 'echo "S $1 $$ $PPID" >&9\nredo-ifchange F || true\necho u > "$3"\necho "E $1 $$ 0" >&9\n',
        'all.do': scen.TRACE_HDR + 'echo "S $1 $$ $PPID" >&9\nredo-ifchange %s\necho "E $1 $$ 0" >&9\n' % ' '.join(order),
    }
    if why == 'rule-fails':
        files['F.do'] = scen.TRACE_HDR + 'echo "S $1 $$ $PPID" >&9\necho "E $1 $$ 1" >&9\nexit 1\n'
    pj = scen.Project(files, 'c14n')
    anoms = []
    obs = dict(not_before_rounds=1, commands=0, failed_attempts_to_build_the_watched_path=0)
    try:
        runs_of_t = []
        for k in range(3):
            open(pj.trace, 'w').close()
            r, _ = pj.run(['redo-ifchange', 'all'], slots=(j if j > 1 else None))
            if r.status != 'exit' or r.panicked():
                return dict(verdict='inconclusive', why='command %d did not end normally: %s' % (k, r.status), sample=dict(item=list(item)))
            obs['commands'] += 1
            if r.rc != 0:
                anoms.append(dict(key='not-before:nonzero', what='command %d: exit %s: %s' % (k, r.rc, r.err[-200:].replace('\n', ' | '))))
                break
            ex = [l.split(' ')[1] for l in pj.trace_text().split('\n') if l.startswith('S ')]
            runs_of_t.append(ex.count('T'))
            if 'target F failed' in r.err or 'no rule to' in r.err or 'exit code' in r.err or 'F' in ex:
                obs['failed_attempts_to_build_the_watched_path'] += 1
            if os.path.lexists(os.path.join(pj.top, 'F')):
                return dict(verdict='inconclusive', why='F came into existence', sample=dict(item=list(item)))
        if not anoms and runs_of_t != [1, 0, 0]:
            anoms.append(dict(key='watcher-ran-before-the-path-exists:failed-attempt-to-build-it-elsewhere',
                              what='T (redo-ifcreate F; F never existed; U tried to build F, failed and carried on) ran %s times in three commands, expected [1, 0, 0]' % runs_of_t))
    finally:
        pj.close()
    res = dict(verdict='violated' if anoms else 'held', nontrivial=obs['commands'] == 3 and obs['failed_attempts_to_build_the_watched_path'] > 0, shape=common.shash(list(item)),
               sample=dict(kind='notbefore', why=why, order=list(order), j=j), obs=obs, sets=dict(not_before_shapes=['%s/%s/j%d' % (why, '-'.join(order), j)]))
    if anoms:
        res['violations'] = anoms[:2]
        res['replay'] = dict(kind='notbefore', item=list(item))
    return res


APPEAR = {
    'file': 'echo x > "$P"',
    'empty-file': ': > "$P"',
    'dir': 'mkdir "$P"',
    'dir-with-content': 'mkdir "$P" && echo x > "$P/f"',
    'link-to-dir': 'mkdir real.d && ln -s "$PWD/real.d" "$P"',
    'link-to-file': 'echo x > real.f && ln -s "$PWD/real.f" "$P"',
    'fifo': 'mkfifo "$P"',
}


def appears_case(item):
    """The watched path comes into existence as something else than a regular file (a directory, a link to one, a fifo, ...), directly or
    below directories that did not exist either.  The watcher runs at the first request after that - once - and not before, not again."""
    _, kind, path, via, seed = item
    files = {
        'T.do': scen.TRACE_HDR + 'echo "S $1 $$ $PPID" >&9\nif [ -e "%s" ]; then echo present; else redo-ifcreate "%s"; echo absent; fi > "$3"\necho "E $1 $$ 0" >&9\n' % (path, path),
        'top.do': scen.TRACE_HDR + 'echo "S $1 $$ $PPID" >&9\nredo-ifchange T\ncat T > "$3"\necho "E $1 $$ 0" >&9\n',
    }
    pj = scen.Project(files, 'c14a')
    anoms = []
    obs = dict(appear_rounds=1, commands=0)
    goal = 'top' if via == 'below' else 'T'
    try:
        seq = []
        for k in range(4):
            if k == 2:
                import subprocess
                d = os.path.dirname(path)
                pre = ('mkdir -p "%s" && ' % d) if d else ''
                rc = subprocess.call(['sh', '-c', 'P="%s"; %s%s' % (path, pre, APPEAR[kind])], cwd=pj.top)
                if rc != 0 or not os.path.exists(os.path.join(pj.top, path)):
                    return dict(verdict='inconclusive', why='could not create the path', sample=dict(item=list(item)))
            open(pj.trace, 'w').close()
            r, _ = pj.run(['redo-ifchange', goal])
            if r.status != 'exit' or r.panicked():
                return dict(verdict='inconclusive', why='command %d did not end normally: %s' % (k, r.status), sample=dict(item=list(item)))
            obs['commands'] += 1
            if r.rc != 0:
                anoms.append(dict(key='appears:nonzero:%s' % kind, what='command %d: exit %s: %s' % (k, r.rc, r.err[-200:].replace('\n', ' | '))))
                break
            ex = [l.split(' ')[1] for l in pj.trace_text().split('\n') if l.startswith('S ')]
            seq.append(ex.count('T'))
        if not anoms and seq != [1, 0, 1, 0]:
            anoms.append(dict(key='watcher-%s:path-appears-as-%s' % ('not-run-after-the-path-exists' if seq[:3] == [1, 0, 0] else 'runs-at-the-wrong-time', kind),
                              what='T (redo-ifcreate %s) ran %s times in the four commands (the path appears as %s before the third), expected [1, 0, 1, 0]' % (path, seq, kind)))
        tf = (common.read_file(os.path.join(pj.top, 'T')) or b'').decode().strip()
        if not anoms and tf != 'present':
            anoms.append(dict(key='watcher-stale:path-appears-as-%s' % kind, what='T holds %r' % tf))
    finally:
        pj.close()
    res = dict(verdict='violated' if anoms else 'held', nontrivial=obs['commands'] == 4, shape=common.shash(list(item)),
               sample=dict(kind='appears', as_=kind, path=path, via=via), obs=obs, sets=dict(appears_as=['%s:%s' % (kind, 'nested' if '/' in path else 'flat')]))
    if anoms:
        res['violations'] = anoms[:2]
        res['replay'] = dict(kind='appears', item=list(item))
    return res


class Dispatch:
    def __init__(self, hist):
        self.hist = hist

    def __call__(self, item, **kw):
        if isinstance(item, (tuple, list)) and item and item[0] == 'notbefore':
            return notbefore_case(tuple(item))
        if isinstance(item, (tuple, list)) and item and item[0] == 'appears':
            return appears_case(tuple(item))
        return self.hist(item, **kw)


def main(tier):
    n, budget = (240, 70) if tier == 'quick' else (5000, 780)
    extra = [('notbefore', why, order, j, rep) for rep in range(1 if tier == 'quick' else 4)
             for why in ('no-rule', 'rule-fails') for order in (('U', 'T'), ('T', 'U')) for j in (1, 3)]
    extra += [('appears', kind, path, via, rep) for rep in range(1 if tier == 'quick' else 3) for kind in sorted(APPEAR)
              for path, via in ((('plugins', 'direct'), ('vendor/lib/x', 'below')) if tier == 'quick' else (('plugins', 'direct'), ('plugins', 'below'), ('vendor/lib/x', 'direct'), ('vendor/lib/x', 'below'), ('a b/c', 'direct')))]
    return histcheck.run(PROP, tier, Dispatch(CASE), extra + histcheck.seeds_for(PROP, tier, n), 'exploration', RULE, ASSUME, budget, floor=20)


def replay(path):
    import json
    d = json.load(open(path))
    if d['replay'].get('kind') == 'appears':
        common.ensure_built()
        r = appears_case(tuple(d['replay']['item']))
        from ..framework import replay_result
        return replay_result(PROP, r, path)
    if d['replay'].get('kind') == 'notbefore':
        common.ensure_built()
        it = d['replay']['item']
        r = notbefore_case((it[0], it[1], tuple(it[2]), it[3], it[4]))
        from ..framework import replay_result
        return replay_result(PROP, r, path)
    from ..replay import replay_history
    return replay_history(PROP, path)
