"""Reference simulation of "what redo should do", written from the property statements.

It tracks, per target, the version of every dependency seen at its last build, failure flags,
ownership and the script identity used, and predicts for each command which scripts must run and
whether the command succeeds.  It mirrors the documented semantics, not the implementation.

Checksummed ("stamped") targets make a dependent *uncertain*: the checksummed target is brought up to
date first and the dependent is re-evaluated afterwards (C03).
"""


class Rec:
    __slots__ = ('built', 'failed', 'exists', 'who', 'seen', 'outver', 'content', 'always', 'watch_absent',
                 'built_run', 'owner', 'phony', 'stamped', 'removed_mark', 'removed_run', 'extra', 'user_seen', 'tolerated', 'user_removed', 'static', 'meta_changed')

    def __init__(self):
        self.built = False        # a build has been attempted and recorded
        self.failed = False       # last attempt failed
        self.exists = False       # the produced file is (still) there
        self.who = None           # script identity used at the last attempt
        self.seen = {}            # dep -> version seen at last successful build
        self.outver = 0           # bumped when the target "changes" from a dependent's point of view
        self.content = None       # bytes produced by the last successful build (for checksummed targets)
        self.always = False
        self.watch_absent = None  # path declared with redo-ifcreate at the last build
        self.built_run = -1       # run in which it was last executed
        self.owner = 'none'       # none | redo | user
        self.phony = False
        self.stamped = False
        self.removed_mark = False  # the user removed the produced file and it has not been rebuilt yet
        self.removed_run = -1      # run in which it was rebuilt after such a removal
        self.user_seen = False     # a command has met the user's version of this file
        self.user_removed = False  # a hand-made file that redo had seen in the place of this (phony) target was removed again
        self.tolerated = False     # the last successful build carried on after a dependency had failed
        self.meta_changed = False  # the user changed the file's metadata only (chmod): same bytes, size, mtime, another stamp
        self.static = False        # its rule vanished and redo took the file for a source (redo has forgotten that it was a target)
        self.extra = {}            # checksummed targets redo built out of band on behalf of this target's script -> version

    def copy(self):
        r = Rec()
        for k in Rec.__slots__:
            v = getattr(self, k)
            setattr(r, k, dict(v) if isinstance(v, dict) else v)
        return r


class Model:
    def __init__(self, prog):
        self.p = prog
        self.R = {n: Rec() for n in prog.targets}
        self.srcver = {}          # file name -> version of user-made changes (sources, .sel, .flag, watch paths, user edits of targets)
        self.run = 0
        self.cur_ctx = None
        self.reader = None        # name -> bytes of the file as it is now (set by the history driver; read-only)
        self.static = {}          # target whose rule is gone and whose file redo has taken for a source -> its bytes

    def copy(self):
        m = Model.__new__(Model)
        m.p = self.p
        m.R = {n: r.copy() for n, r in self.R.items()}
        m.srcver = dict(self.srcver)
        m.run = self.run
        m.cur_ctx = None
        m.reader = self.reader
        m.static = dict(self.static)
        return m

    # ---- edits (called by the history driver together with the file system change)
    def touch_src(self, name):
        self.srcver[name] = self.srcver.get(name, 0) + 1

    def removed(self, name):
        """The user removed the file of target `name`."""
        r = self.R[name]
        r.exists = False
        if r.owner == 'user' and r.static:
            # a former target that redo had already taken for a source: with the file gone it is nothing at all to redo
            r.owner = 'none'
            r.static = False
            r.built = False
            r.failed = False
            r.content = None
            r.user_seen = False
            return
        if r.owner == 'user':
            r.owner = 'none'
            if r.user_seen:
                r.content = None      # redo has seen foreign content: whatever it generates next is a change
                if r.built and r.phony:
                    r.user_removed = True     # the rule of a target without output runs again as well (C11: removal hands it back to redo)
            elif r.built and not r.phony:
                # redo never looked at the user's version: for redo this is its own output, removed by hand
                r.removed_mark = True
            r.user_seen = False
        elif r.built and not r.phony:
            r.removed_mark = True

    def user_wrote(self, name):
        """The user created / edited / replaced the file of target `name`."""
        r = self.R[name]
        r.owner = 'user'
        r.exists = True
        self.touch_src(name)

    # ---- versions
    def is_target(self, n):
        return n in self.R and self.R[n].owner != 'user'

    def ver(self, n):
        if n in self.R:
            r = self.R[n]
            return (r.outver, self.srcver.get(n, 0) if r.owner == 'user' else 0)
        return self.srcver.get(n, 0)

    # ---- pure evaluation
    def definite_reason(self, n, forced=False):
        p, r = self.p, self.R[n]
        if forced:
            return 'forced'
        if not r.built:
            return 'never-built'
        if r.failed:
            return 'failed-last-time'
        if not r.phony and not r.exists:
            return 'file-removed'
        if r.meta_changed and r.exists and r.owner != 'user':
            # redo compares the whole stamp (mode, owner, ... included): the target is dirty, but no hand edit (mtime and size agree)
            return 'metadata-changed'
        if r.phony and r.user_removed:
            return 'user-file-removed'
        if r.who != p.who(n):
            return 'do-changed'
        if r.always and r.built_run != self.run:
            return 'always'
        if r.tolerated and r.built_run != self.run:
            # built from a failure it chose to ignore: not up to date (C05), rebuilt once per run until it builds cleanly
            return 'tolerated-failure'
        if r.watch_absent is not None and p.watch.get(r.watch_absent) is not None:
            return 'created:' + r.watch_absent
        c = self.cur_ctx
        if c is not None and c['obs'] is not None and self.obs_left(c, n) and self.removed_stamp_below(n) \
                and not self.settles_to_run(n, c):
            # a checksummed dependency whose file the user removed: the dependency did change (it
            # vanished), so running n directly is legitimate; settling it through the checksum is too.
            # Which of the two redo does depends on evaluation order, so the observation decides.
            c['maybe'].add(n)
            return 'dep-file-removed'
        if c is not None and c['obs'] is not None and self.obs_left(c, n) and self.removed_stamp_in_closure(n, set()) \
                and not self.settles_to_run(n, c):
            # Known finding (C02/C03): the hand-removed checksummed target sits further down.  The first process that looks
            # at it takes it for "maybe changed"; redo then forgets that it was a target (failed_runid = 0), so every later
            # look in the same run sees "definitely dirty" - also through plain intermediates that are never rebuilt - and a
            # checksummed target above them is rebuilt although nothing below it ends up changed.
            c['maybe'].add(n)
            c['removed_overbuild'].add(n)
            return 'stamp-file-removed-below'
        return None

    def dep_state(self, d, v, ctx, memo):
        """Contribution of a recorded dependency d (version v seen at the dependent's last build)."""
        if self.is_target(d) and ctx['done'].get(d) is False:
            # failed in this run: that is what redo looks at first, whatever else has changed about it (a failing script may have
            # modified the file as well)
            return 'dirty', 'dep-failed:' + d
        if self.ver(d) != v:
            if d in self.R and self.R[d].owner == 'user' and self.R[d].stamped and not self.R[d].user_seen:
                # a checksummed target that the user has overwritten and that redo has not looked at since: its record still
                # carries the checksum, so the first look says "maybe changed" and it is "built" out of band (redo notices
                # the foreign content there, skips it and drops the checksum); only then is the dependent definitely dirty.
                return 'uncertain', 'dep-maybe-user:' + d
            return 'dirty', 'dep-changed:' + d
        if not self.is_target(d):
            return 'clean', None
        if d in ctx['done']:
            if ctx['done'][d] and self.tainted(d) and self.observed_more(ctx, {d}):
                return 'dirty', 'dep-tolerates-failure:' + d
            return ('clean', None) if ctx['done'][d] else ('dirty', 'dep-failed:' + d)
        r = self.R[d]
        s, why = self.status(d, ctx, memo)
        if s == 'clean':
            return 'clean', None
        if r.failed or not r.built:
            return 'dirty', 'dep-failed-before:' + d
        if r.stamped:
            return 'uncertain', 'dep-maybe:' + d
        return s, 'dep-dirty:' + d

    def status(self, n, ctx, memo, forced=False):
        key = (n, forced)
        if key in memo:
            return memo[key]
        memo[key] = ('clean', None)      # recorded graphs are acyclic; guard anyway
        why = self.definite_reason(n, forced)
        if why:
            memo[key] = ('dirty', why)
            return memo[key]
        res = ('clean', None)
        for d, v in self.R[n].seen.items():
            s, w = self.dep_state(d, v, ctx, memo)
            if s == 'dirty':
                res = ('dirty', w)
                break
            if s == 'uncertain':
                res = ('uncertain', w)
        memo[key] = res
        if res[0] == 'clean' and not forced and n not in ctx['done'] and ctx.get('memo_clean', True):
            # redo marks everything it finds clean as "checked in this run" and does not look at it again in
            # this run - not even if a dependency is force-rebuilt later in the same run (known finding, C02)
            ctx['done'][n] = True
        return res

    def topmost(self, n, ctx, memo, acc):
        """Checksummed targets nearest to n that have to be brought up to date before n can be judged."""
        for d, v in self.R[n].seen.items():
            s, _ = self.dep_state(d, v, ctx, memo)
            if s != 'uncertain':
                continue
            r = self.R[d]
            if not self.is_target(d):
                if d not in acc:
                    acc.append(d)      # user-overwritten checksummed target (see dep_state)
                continue
            own, _ = self.status(d, ctx, memo)
            if r.stamped and own == 'dirty':
                if d not in acc:
                    acc.append(d)
            else:
                self.topmost(d, ctx, memo, acc)
        return acc

    def tainted(self, n, seen=None):
        """n, or a target below it, succeeded although a dependency it tolerates (|| true) has failed."""
        seen = set() if seen is None else seen
        if n in seen or n not in self.R or not self.is_target(n):
            return False
        seen.add(n)
        t = self.p.targets[n]
        o = t.get('opt')
        if o and self.is_target(o) and (self.R[o].failed or self.tainted(o, seen)):
            return True
        return any(self.tainted(d, seen) for d in self.p.curdeps(n))

    def closure_of(self, n, acc=None):
        acc = [] if acc is None else acc
        if n in acc or n not in self.R or not self.is_target(n):
            return acc
        acc.append(n)
        for d in self.p.curdeps(n):
            self.closure_of(d, acc)
        return acc

    def removed_stamp_in_closure(self, n, seen):
        if n in seen or n not in self.R:
            return False
        seen.add(n)
        if self.removed_stamp_below(n):
            return True
        return any(self.removed_stamp_in_closure(d, seen) for d in list(self.R[n].seen) if d in self.R and self.is_target(d))

    def removed_stamp_below(self, n):
        for d in list(self.R[n].seen) + list(self.R[n].extra):
            if d in self.R and self.is_target(d):
                r = self.R[d]
                if r.stamped and (r.removed_mark or r.removed_run == self.run):
                    return True
        return False

    # ---- building
    def update(self, n, ctx, forced=False):
        """Bring `n` up to date.  Returns ok."""
        if not self.is_target(n):
            if n in self.R:
                self.R[n].user_seen = True
            return True
        if n in ctx['done'] and forced and ctx['done'][n]:
            ctx['rechecked'].add(n)      # force-rebuilt after it was already checked in this run
        if n in ctx['done'] and not forced and ctx['done'][n] and n not in ctx['ran'] and self.parallel_dirty_at_start(n, ctx):
            del ctx['done'][n]      # only memoised as clean; see parallel_dirty_at_start
        if n in ctx['done'] and not forced and ctx['done'][n] and n not in ctx['ran'] and ctx.get('start') is not None and self.obs_left(ctx, n) \
                and n in ctx['start'].R and ctx['start'].R[n].built and ctx['start'].rounds_needed(n) >= 2:
            # only memoised as clean, in this model's order, after a sibling had settled the levels below it; another requester
            # (parallel command, other order of looking) met it with two nested checksum levels undecided: see the may-run rule below
            del ctx['done'][n]
        if n in ctx['done'] and not forced:
            if not (ctx['done'][n] and self.tainted(n)):
                if ctx['done'][n] and n in ctx['ran']:
                    # a target executed earlier in this run and now requested again: redo looks at it, finds it clean and gives it
                    # the "checked in this run" mark that a merely executed target does not have (see run_script, failure case)
                    ctx.setdefault('looked_again', set()).add(n)
                return ctx['done'][n]
            # n (or something below it) succeeded although a dependency it tolerates failed: by C05 it is not up to date, so a
            # further request in the same run may execute it again (redo does unless n was marked as
            # checked by redo-stamp in this run): a may-run, decided by the observation
            ctx['maybe'].add(n)
            if not self.observed_more(ctx, {n}):
                # n itself is not executed again, but a checksummed target below it that tolerated the failure is "maybe changed"
                # on this new look and is rebuilt out of band on n's behalf (same checksum again: n stays as it is)
                for e in self.closure_of(n):
                    if e != n and self.R[e].stamped and self.tainted(e) and ctx['done'].get(e) and self.observed_more(ctx, {e}):
                        ctx['maybe'].add(e)
                        del ctx['done'][e]
                        self.run_script(e, ctx, 'tolerated-failure-looked-at-again')
                return ctx['done'][n]
            del ctx['done'][n]
        s, why = self.status(n, ctx, {}, forced)
        if s == 'dirty' and not forced and ctx.get('parallel') and ctx['obs'] is not None and n not in ctx['obs'] and (why or '').startswith('dep-dirty:'):
            # parallel command: n is dirty only because a target below it has lost its rule (its recorded .do file is gone).  Whoever
            # looks at that target first turns the file into a source, unchanged; a sibling may have done so before n was judged,
            # and then n is clean.  n did not run: take that order.
            conv = [d for d in self.closure_of(n) if d != n and self.p.who(d) is None and self.R[d].built and self.R[d].exists
                    and not self.R[d].phony and not self.R[d].failed and d not in ctx['done']]
            if conv:
                m2 = self.copy()
                c2 = m2.new_ctx(keep=ctx['keep'])
                c2['done'] = dict(ctx['done'])
                for d in conv:
                    m2.no_rule(d, c2, 'do-changed')
                s2, _w2 = m2.status(n, c2, {})
                if s2 == 'clean':
                    ctx['maybe'].add(n)
                    for d in conv:
                        self.no_rule(d, ctx, 'do-changed')
                    s, why = self.status(n, ctx, {}, forced)
        if s != 'dirty' and ctx['obs'] is not None and self.obs_left(ctx, n):
            trig = self.extra_trigger(n, ctx)
            if trig and not self.settles_to_run(n, ctx):
                # redo records the checksummed targets it built out of band while n's script was running as
                # dependencies of n itself; a change (or failure) of one of them re-runs n even if everything
                # n declared absorbed the change (known finding, keyed separately).
                ctx['maybe'].add(n)
                return self.run_script(n, ctx, 'extra-edge:' + trig)
        if s == 'dirty' and not forced and ctx['obs'] is not None and n not in ctx['obs'] and (why or '').startswith(('dep-failed:', 'dep-dirty:')):
            # follow the chain of reasons down to its root
            w, hops = why, 0
            while w and w.startswith('dep-dirty:') and hops < 20:
                x = w.split(':', 1)[1]
                hops += 1
                if x not in self.R or self.R[x].stamped:
                    w = None
                    break
                _, w = self.status(x, ctx, {})
            d = w.split(':', 1)[1] if (w or '').startswith('dep-failed:') else None
            if d in self.R and self.R[d].stamped and ctx['done'].get(d) is False:
                # d is a checksummed dependency that failed in this run.  If redo judged n before d had failed,
                # n was only "maybe dirty" and d was tried out of band on n's behalf: then n's script never
                # starts.  Which of the two happened depends on evaluation order; the observation decides.
                ctx['maybe'].add(n)
                ctx['notrun_failed'].add(n)
                ctx['done'][n] = False
                # the same out-of-band round also covered n's other undecided checksummed dependencies
                for e in self.topmost(n, ctx, {}, []):
                    if e in ctx['obs'] and e not in ctx['ran'] and e not in ctx['done']:
                        self.update(e, ctx)
                return False
        ok = self.settle(n, ctx, s, why, forced)
        if ok is not None:
            return ok
        if ctx.get('start') is not None and self.obs_left(ctx, n) and n in ctx['start'].R and ctx['start'].R[n].built \
                and ctx['start'].rounds_needed(n) >= 2:
            # n was judged while two nested levels of checksummed targets below it were still undecided (parallel command,
            # or a different order of looking at dependencies than this model's).  After one out-of-band round redo runs n itself (as in the serial case, see settle());
            # in this model's sequential order a sibling had settled the lower level first.  Order-dependent: may-run.
            ctx['maybe'].add(n)
            ctx['unsettled_overbuild'].add(n)      # it did turn out clean: an over-build owed to the single out-of-band round
            return self.run_script(n, ctx, 'unsettled-parallel:' + str(why))
        why0 = self.parallel_dirty_at_start(n, ctx)
        if why0:
            ctx['maybe'].add(n)
            return self.run_script(n, ctx, 'dirty-at-start:' + str(why0))
        # settled clean: an extra edge may still have changed while settling
        trig = self.extra_trigger(n, ctx)
        if trig and ctx['obs'] is not None and self.obs_left(ctx, n):
            ctx['maybe'].add(n)
            return self.run_script(n, ctx, 'extra-edge:' + trig)
        ctx['done'][n] = True
        return True

    def failed_below(self, n, ctx, seen):
        for d in self.R[n].seen:
            if d not in self.R or not self.is_target(d):
                continue
            if self.R[d].failed and ctx['done'].get(d) is False:
                return True
            if ctx['done'].get(d) is True and (d not in ctx['ran'] or self.R[d].stamped or (d in ctx.get('looked_again', ()) and not ctx.get('parallel'))):
                continue        # merely checked in this run (or marked by redo-stamp, or looked at again after it ran): redo does not look below it again
            if d not in seen:
                seen.add(d)
                if self.failed_below(d, ctx, seen):
                    return True
        return False

    def parallel_dirty_at_start(self, n, ctx):
        """Parallel command: n comes out clean only because, in this model's sequential order, a sibling had already dealt with
        what made it dirty (rebuilt a dependency that had failed last time to the same checksum, turned a target whose rule is
        gone into a source, ...).  If n was definitely dirty in the state the command started from, a process that judged it
        before the sibling got there ran it: may-run, decided by the observation.  -> reason or None"""
        if not (ctx.get('start') is not None and self.obs_left(ctx, n)):
            return None
        if n not in ctx['start'].R or not ctx['start'].R[n].built or not ctx['start'].is_target(n):
            return None
        if not ctx.get('parallel'):
            # serial command: the same holds when what made n dirty at the start was a target whose rule has vanished and whose
            # file is still there.  Looking at it says "dirty" (its recorded .do is missing) until somebody *builds* it, which
            # turns it into an unchanged source; in which order redo gets to the two is a matter of hash order.
            s0 = ctx['start']
            if not any(d != n and s0.p.who(d) is None and s0.R[d].built and s0.R[d].exists and not s0.R[d].phony and not s0.R[d].failed
                       and s0.is_target(d) for d in s0.closure_of(n)):
                return None
        st = ctx['start'].copy()
        s0, why0 = st.status(n, st.new_ctx(keep=True), {})
        return str(why0) if s0 == 'dirty' else None

    def extra_trigger(self, n, ctx):
        for e, v in self.R[n].extra.items():
            if self.ver(e) != v:
                return e
            if self.is_target(e) and (self.R[e].failed or ctx['done'].get(e) is False):
                return e
        return None

    def settles_to_run(self, n, ctx):
        """Pure: does the regular procedure end up executing n's script?"""
        m = self.copy()
        c = m.new_ctx(keep=ctx['keep'])
        c['done'] = dict(ctx['done'])
        s, why = m.status(n, c, {})
        m.settle(n, c, s, why, False)
        return n in c['ran']

    def settle(self, n, ctx, s, why, forced):
        """Bring the checksummed targets below n up to date until n can be judged.  Returns the result of
        running n (bool), False if a needed dependency failed, or None if n turned out clean."""
        rounds = 0
        while s == 'uncertain':
            rounds += 1
            tops = self.topmost(n, ctx, {}, [])
            if not tops or rounds > 1:
                # not settled after one out-of-band round (nested checksummed targets): redo runs n
                # itself at this point; in which order the nested targets were settled depends on hash
                # and schedule order, so n is a may-run and the observation decides.
                ctx['maybe'].add(n)
                if not tops or rounds > 6 or ctx['obs'] is None or self.obs_left(ctx, n):
                    if self.clean_if_fully_settled(n, ctx['done']):
                        ctx['unsettled_overbuild'].add(n)
                    s, why = 'dirty', 'unsettled:' + str(why)
                    break
            failed_known = False
            if ctx['stack']:
                ctx['extra_new'].setdefault(ctx['stack'][-1], set()).update(tops)
            if ctx['obs'] is not None:
                # the order in which redo brings these up to date is unspecified; it matters only when one of
                # them fails (the rest is then not started): take the ones that were observed to run first
                tops = sorted(tops, key=lambda d: 0 if d in ctx['obs'] else 1)
            failed_here = set()
            ctx.setdefault('oob_stack', []).append(set(tops))
            try:
                for d in tops:
                    if failed_known and not ctx['keep']:
                        wr = self.would_run(d, ctx)
                        if not wr and ctx.get('parallel') and self.obs_left(ctx, d):
                            wr = {d}        # observed all the same: let update() see whether a parallel may-run rule explains it
                        if not wr:
                            continue
                        ctx['ambiguous'].add(d)
                        if not self.observed_more(ctx, wr):
                            continue
                    if not self.update(d, ctx):
                        failed_known = True
                        failed_here.add(d)
            finally:
                ctx['oob_stack'].pop()
            if failed_known:
                if ctx['obs'] is not None and self.obs_left(ctx, n) and any(failed_here & outer for outer in ctx['oob_stack']):
                    # the dependency that failed is also a member of an out-of-band list that is being worked through further up
                    # (n is built on behalf of another member of that list).  The order within such a list is unspecified: had the
                    # failing member come first, n would have met it as "failed in this run", definitely dirty, and would have been
                    # started (its own request for the dependency then fails).  n was observed to run: take that order.
                    ctx['maybe'].add(n)
                    return self.run_script(n, ctx, 'dep-failed-earlier-in-the-same-out-of-band-list:' + str(why))
                if ctx.get('parallel') and ctx['obs'] is not None and self.obs_left(ctx, n):
                    # parallel command: the dependency was being built (and failed) on a sibling's behalf; n was judged after the
                    # failure had been recorded, found definitely dirty and started (its own request for the dependency then fails)
                    ctx['maybe'].add(n)
                    return self.run_script(n, ctx, 'dep-failed-elsewhere:' + str(why))
                # n's script does not run and n is not up to date; a later request in the same run sees the
                # failed dependency as definitely dirty and does execute n
                ctx['notrun_failed'].add(n)
                return False
            s, why = self.status(n, ctx, {}, forced)
        if s == 'clean':
            return None
        return self.run_script(n, ctx, why)

    def no_rule(self, n, ctx, why):
        """n is dirty but no .do file serves it (any more).  redo runs nothing: a file that is there becomes a source (it is never
        regenerated or removed until the user deletes it, whatever rules appear later); without a file the request fails."""
        r = self.R[n]
        ctx['reasons'][n] = 'no-rule:' + str(why)
        r.who = None
        if r.exists and not r.phony:
            old = self.ver(n)
            r.owner = 'user'
            r.static = True
            r.user_seen = True
            r.failed = False
            r.stamped = False
            new = self.ver(n)
            for dn, dr in self.R.items():       # the file itself did not change: nobody who saw it sees a change
                if dr.seen.get(n) == old:
                    dr.seen[n] = new
                if dr.extra.get(n) == old:
                    dr.extra[n] = new
            ctx.setdefault('became_static', set()).add(n)
            self.static[n] = self.reader(n) if self.reader else None
            ctx['done'][n] = True
            return True
        r.failed = True
        r.built = True
        r.built_run = self.run
        ctx['done'][n] = False
        return False

    def run_script(self, n, ctx, why):
        p, r = self.p, self.R[n]
        if p.who(n) is None:
            return self.no_rule(n, ctx, why)
        if ctx.get('abort_mode') and ctx['obs'] is not None and not self.observed_more(ctx, {n}):
            # failing parallel command without --keep-going: a script that was not observed was simply not started any
            # more because a failure was already known (schedule-dependent, C05); n keeps the state it had
            ctx['done'][n] = False
            ctx['not_started'].add(n)
            return False
        ctx['ran'].append(n)
        ctx['reasons'][n] = why
        ctx['why_list'].append((n, why))
        ctx['done'][n] = False       # a re-request while running / after failing counts as failed
        ctx['stack'].append(n)
        try:
            return self.run_script2(n, ctx, why)
        finally:
            ctx['stack'].pop()

    def run_script2(self, n, ctx, why):
        p, r = self.p, self.R[n]
        t = p.targets[n]
        seen = {}
        who = p.who(n)
        r.who = who
        r.built = True
        r.built_run = self.run
        r.user_removed = False
        meta0 = r.meta_changed
        r.meta_changed = False
        r.static = False
        depfail = who is None
        if who is not None:
            seen[p.chosen_do(n)] = self.ver(p.chosen_do(n))
            if t.get('dyn'):
                seen[n + '.sel'] = self.ver(n + '.sel')
            if t.get('flag') is not None:
                seen[n + '.flag'] = self.ver(n + '.flag')
            failed_known = False
            for d in p.curdeps(n):
                if failed_known and not ctx['keep']:
                    # no new target is started after a failure is known; a sibling that was already
                    # started (parallelism) or started before the failure was known is legal: guided by obs.
                    if t.get('split'):
                        break
                    wr = self.would_run(d, ctx)
                    if not wr and ctx.get('parallel') and self.obs_left(ctx, d):
                        wr = {d}        # observed all the same: let update() see whether a parallel may-run rule explains it
                    if not wr:
                        continue
                    ctx['ambiguous'].add(d)
                    if not self.observed_more(ctx, wr):
                        continue
                if t.get('split') and failed_known:
                    break
                ok = self.update(d, ctx)
                seen[d] = self.ver(d)
                if not ok:
                    depfail = True
                    failed_known = True
            r.tolerated = False
            if not depfail and t.get('opt'):
                if not self.update(t['opt'], ctx):
                    r.tolerated = True
                seen[t['opt']] = self.ver(t['opt'])
            if not depfail and t.get('watch'):
                w = t['watch']
                if p.watch.get(w) is not None:
                    seen[w] = self.ver(w)
                    r.watch_absent = None
                else:
                    r.watch_absent = w
            elif not depfail:
                r.watch_absent = None
        if depfail or p.fails(n) or p.hfails(n):
            r.failed = True
            if ((not depfail and t.get('scribble')) or meta0) and r.exists and not r.phony:
                # the failing script appended to the existing target file directly: redo records the new state of the file with the
                # failure, and a file of a target that changed is a changed target (also for a checksummed one whose next successful
                # build arrives at the old checksum again: its dependents never saw the mess, but they are rebuilt)
                r.outver += 1
            if r.removed_mark and r.stamped and not getattr(r, 'removed_bumped', False):
                # a build attempt that fails while the hand-removed file is still missing records "missing" as the target's state:
                # for redo the target has changed (whatever checksum a later successful build arrives at)
                r.outver += 1
                r.content = None
            # Targets that were *executed* earlier in this run and have n below them are not up to date any more (a forced rebuild
            # of n that fails after its dependents were built): redo re-examines executed targets when they are requested again
            # (only targets it merely checked - and checksummed ones, which redo-stamp marks - carry the "checked in this run"
            # mark) and finds the failed dependency.
            ctx['done'][n] = False
            for dn in [x for x, okd in ctx['done'].items() if okd and x in ctx['ran'] and x != n and not self.R[x].stamped]:
                if dn in ctx.get('looked_again', ()) and not ctx.get('parallel'):
                    continue        # executed, then requested again and found clean before this failure: it carries the checked mark
                if self.failed_below(dn, ctx, set()):
                    del ctx['done'][dn]
            return False
        if r.removed_mark:
            # (a failed attempt leaves the file missing: redo goes on treating the target as changed until a build succeeds)
            r.removed_mark = False
            r.removed_run = self.run
        r.always = bool(t.get('always'))
        r.failed = False
        r.owner = 'redo'
        r.phony = bool(t.get('phony'))
        r.exists = not r.phony
        # (targets that have just turned into sources in this command keep their bytes: overlay over the program's user files)
        p.overlay = {k: v for k, v in self.static.items() if v is not None}
        try:
            content = p.expected(n)
        finally:
            p.overlay = {}
        if t.get('stamp'):
            if (not r.stamped) or content != r.content:
                r.outver += 1
        elif n in ctx['rechecked'] and r.outver > 0:
            # known finding (C02): a target force-rebuilt after it was already checked in this run is not
            # marked as changed by redo (record_new_state takes "checked in this run" for "redo-stamp ran"),
            # so nothing that depends on it ever sees this rebuild.  Adopt redo's view and report it.
            if any(dn != n and n in dr.seen for dn, dr in self.R.items()):
                ctx['absorbed'].add(n)
        else:
            r.outver += 1
        r.stamped = bool(t.get('stamp'))
        r.content = content
        for dn, dr in self.R.items():
            if dn != n and n in dr.seen and dr.seen[n] != self.ver(n) and (ctx['done'].get(dn) is True or n in ctx['rechecked']):
                ctx['late'].add((dn, n))
        r.seen = seen
        r.extra = {e: self.ver(e) for e in ctx['extra_new'].pop(n, ()) if e not in seen}
        ctx['done'][n] = True
        return True

    def would_run(self, n, ctx):
        """Pure: the scripts that requesting `n` now would execute (empty set = nothing)."""
        m = self.copy()
        c = m.new_ctx(keep=True)
        c['done'] = dict(ctx['done'])
        m.update(n, c)
        return set(c['ran'])

    @staticmethod
    def obs_left(ctx, n):
        """Is there an observed execution of n that the model has not accounted for yet - not counting the ones that
        forced targets still to come on this command line will need?"""
        if ctx['obs'] is None or n not in ctx['obs']:
            return False
        cnt = (ctx.get('obsn') or {}).get(n, 1)
        return cnt - ctx['ran'].count(n) - ctx.get('pending_forced', []).count(n) > 0

    @staticmethod
    def observed_more(ctx, names):
        """Did the observation execute one of `names` more often than the model has accounted for so far?"""
        if ctx['obs'] is None:
            return False
        cnt = ctx.get('obsn') or {}
        for x in names:
            # (executions that forced targets still to come on this command line will need are not "more")
            if x in ctx['obs'] and cnt.get(x, 1) - ctx.get('pending_forced', []).count(x) > ctx['ran'].count(x):
                return True
        return False

    def new_ctx(self, keep=False, obs=None):
        return dict(ran=[], done={}, keep=keep, obs=obs, reasons={}, ambiguous=set(), maybe=set(),
                    notrun_failed=set(), late=set(), stack=[], extra_new={}, why_list=[], rechecked=set(), absorbed=set(), not_started=set(), unsettled_overbuild=set(), removed_overbuild=set(), looked_again=set())

    def rounds_needed(self, n):
        """Pure: how many out-of-band rounds it takes, from the present state, until n can be judged."""
        m = self.copy()
        c = m.new_ctx(keep=True)
        s, why = m.status(n, c, {})
        rounds = 0
        while s == 'uncertain' and rounds < 6:
            tops = m.topmost(n, c, {}, [])
            if not tops:
                break
            rounds += 1
            for d in tops:
                m.update(d, c)
            s, why = m.status(n, c, {})
        return rounds

    def clean_if_fully_settled(self, n, done=None):
        """Pure: would n turn out clean if the checksummed targets below it were settled level by level?"""
        m = self.copy()
        c = m.new_ctx(keep=True)
        if done:
            c['done'] = dict(done)
        s, why = m.status(n, c, {})
        rounds = 0
        while s == 'uncertain' and rounds < 8:
            tops = m.topmost(n, c, {}, [])
            if not tops:
                break
            rounds += 1
            for d in tops:
                m.update(d, c)
            s, why = m.status(n, c, {})
        return s == 'clean'

    def command(self, targets, forced=False, keep=False, obs=None, obsn=None, parallel=False, abort_mode=False):
        """One top-level `redo-ifchange targets...` (or `redo` when forced).  Returns (ok, ctx)."""
        # (also for serial commands: the order in which redo looks at the dependencies of one target is a hash order)
        start = self.copy() if obs is not None else None
        self.run += 1
        ctx = self.new_ctx(keep, obs)
        ctx['obsn'] = obsn
        ctx['start'] = start
        ctx['abort_mode'] = abort_mode
        ctx['parallel'] = parallel
        self.cur_ctx = ctx
        allok = True
        failed_known = False
        ctx['pending_forced'] = list(targets) if forced else []
        for t in targets:
            if forced and t in ctx['pending_forced']:
                ctx['pending_forced'].remove(t)
            if failed_known and not keep:
                wr = self.would_run(t, ctx)
                if not wr and ctx.get('parallel') and self.obs_left(ctx, t):
                    wr = {t}        # observed all the same: let update() see whether a parallel may-run rule explains it
                if not wr and not forced:
                    continue
                ctx['ambiguous'].add(t)
                if not self.observed_more(ctx, wr | {t}):
                    continue
            ok = self.update(t, ctx, forced=forced)
            if not ok:
                allok = False
                failed_known = True
        return allok, ctx

    # ---- queries
    def will_run(self, targets):
        m = self.copy()
        ok, ctx = m.command(targets)
        return set(ctx['ran']), ctx
