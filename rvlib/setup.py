"""./rv setup: build everything the checks need from files on disk (offline)."""
import os
import subprocess

from . import common


def main():
    common.ensure_built()
    common.ensure_native()
    nat = os.path.join(common.VERIF, 'native')
    mk = os.path.join(nat, 'build.sh')
    if os.path.exists(mk):
        subprocess.check_call(['sh', mk])
    # assemble and warm the Miri workspace (builds the dependency graph for the interpreter once)
    from .checks import miri_layer
    crate, why = miri_layer.ensure()
    if crate:
        r = miri_layer.run_one(crate, 'normpath', 1, 3, timeout=900)
        print('rv setup: miri warm-up: %s (%.0fs)' % (r['status'], r['wall']))
    else:
        print('rv setup: miri layer unavailable: %s' % why)
    common.cleanup_scratch()
    print('rv setup: ok')
    return 0
