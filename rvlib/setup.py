"""./rv setup: build everything the checks need from files on disk (offline)."""
import os
import subprocess

from . import common


def main():
    common.ensure_built()
    common.ensure_native()
    nat = os.path.join(common.VERIF, 'native')
    mk = os.path.join(nat, 'build.sh')
    if os.path.exists(mk):
        subprocess.check_call(['sh', mk])
    common.cleanup_scratch()
    print('rv setup: ok')
    return 0
