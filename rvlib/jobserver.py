"""The harness playing the parent (GNU make style) jobserver."""
import os
import select


class HarnessJobserver:
    """A token pipe owned by the harness.  `slots` = total parallelism offered (the child holds one
    implicit token, so slots-1 bytes are put into the pipe)."""

    def __init__(self, slots, withheld=0):
        self.slots = slots
        r, w = os.pipe()
        # move to high fd numbers so that redo's own pipes (100+) do not collide
        self.r = _dup_high(r, 220)
        self.w = _dup_high(w, self.r + 1)
        os.close(r)
        os.close(w)
        os.set_inheritable(self.r, True)
        os.set_inheritable(self.w, True)
        self.initial = max(0, slots - 1 - withheld)
        self.withheld = withheld
        if self.initial:
            os.write(self.w, b't' * self.initial)

    def env(self):
        return {'MAKEFLAGS': ' -j --jobserver-auth=%d,%d --jobserver-fds=%d,%d' % (self.r, self.w, self.r, self.w)}

    def fds(self):
        return (self.r, self.w)

    def add_token(self, n=1):
        os.write(self.w, b't' * n)
        self.initial += n

    def drain(self):
        """Count (and remove) the bytes now in the pipe."""
        n = 0
        while select.select([self.r], [], [], 0)[0]:
            n += len(os.read(self.r, 65536))
        return n

    def peek(self):
        import fcntl
        import struct
        import termios
        buf = fcntl.ioctl(self.r, termios.FIONREAD, b'\0\0\0\0')
        return struct.unpack('i', buf)[0]

    def close(self):
        for fd in (self.r, self.w):
            try:
                os.close(fd)
            except OSError:
                pass


def _dup_high(fd, start):
    import fcntl
    return fcntl.fcntl(fd, fcntl.F_DUPFD, start)
