"""The harness playing the parent (GNU make style) jobserver."""
import os
import select



def _read_nb(fd, n):
    """read after select(): the descriptor may share its O_NONBLOCK flag with redo processes, and somebody else may have
    taken the bytes in between - that is 'nothing there', not an error"""
    try:
        return os.read(fd, n)
    except BlockingIOError:
        return b''

class HarnessJobserver:
    """A token pipe owned by the harness.  `slots` = total parallelism offered (the child holds one
    implicit token, so slots-1 bytes are put into the pipe)."""

    made = 0

    def __init__(self, slots, withheld=0, cheat=False):
        self.slots = slots
        self.cr = self.cw = None
        r, w = os.pipe()
        # move to high fd numbers so that redo's own pipes (100+) do not collide
        self.r = _dup_high(r, 220)
        self.w = _dup_high(w, self.r + 1)
        os.close(r)
        os.close(w)
        os.set_inheritable(self.r, True)
        os.set_inheritable(self.w, True)
        self.initial = max(0, slots - 1 - withheld)
        self.withheld = withheld
        if self.initial:
            os.write(self.w, b't' * self.initial)
        if cheat:
            # the harness also owns the pipe on which a process that exits on a borrowed slot leaves a byte
            r, w = os.pipe()
            self.cr = _dup_high(r, self.w + 1)
            self.cw = _dup_high(w, self.cr + 1)
            os.close(r)
            os.close(w)
            os.set_inheritable(self.cr, True)
            os.set_inheritable(self.cw, True)

    def env(self):
        # the spellings GNU make has used over time (redo must find its pipe in each of them)
        HarnessJobserver.made += 1
        k = HarnessJobserver.made % 4
        if k == 0:
            mf = ' -j --jobserver-auth=%d,%d --jobserver-fds=%d,%d' % (self.r, self.w, self.r, self.w)
        elif k == 1:
            mf = '--jobserver-auth=%d,%d' % (self.r, self.w)
        elif k == 2:
            mf = 'kw -j%d --jobserver-fds=%d,%d -- V=1' % (self.slots, self.r, self.w)
        else:
            mf = ' -j --jobserver-fds=%d,%d --jobserver-auth=%d,%d -Otarget' % (self.r, self.w, self.r, self.w)
        e = {'MAKEFLAGS': mf}
        if self.cr is not None:
            e['REDO_CHEATFDS'] = '%d,%d' % (self.cr, self.cw)
        return e

    def fds(self):
        return (self.r, self.w) + ((self.cr, self.cw) if self.cr is not None else ())

    def drain_cheat(self):
        n = 0
        while self.cr is not None and select.select([self.cr], [], [], 0)[0]:
            n += len(_read_nb(self.cr, 65536))
        return n

    def add_token(self, n=1):
        os.write(self.w, b't' * n)
        self.initial += n

    def drain(self):
        """Count (and remove) the bytes now in the pipe."""
        n = 0
        while select.select([self.r], [], [], 0)[0]:
            n += len(_read_nb(self.r, 65536))
        return n

    def peek(self):
        import fcntl
        import struct
        import termios
        buf = fcntl.ioctl(self.r, termios.FIONREAD, b'\0\0\0\0')
        return struct.unpack('i', buf)[0]

    def close(self):
        for fd in (self.r, self.w, self.cr, self.cw):
            if fd is None:
                continue
            try:
                os.close(fd)
            except OSError:
                pass


def _dup_high(fd, start):
    import fcntl
    return fcntl.fcntl(fd, fcntl.F_DUPFD, start)
