"""Programs: graphs of instrumented .do scripts with a content oracle.

All names are paths relative to the project top.  Target content is a pure function of the chosen
script's identity and the bytes of the declared dependencies, so "what a from-scratch build would
produce" is computable without running redo.
"""
import os
import posixpath

from .common import posix_cksum, write_file, read_file

SCRIPT = r'''WHO='%(who)s'
exec 9>>"$RV_TRACE"
. "./$1.cfg"
echo "S $NAME $$ $PPID $WHO" >&9
if [ -n "$ERRLINES" ]; then i=0; while [ $i -lt $ERRLINES ]; do echo "$NAME#$i" >&2; i=$((i+1)); done; fi
if [ -n "$DYN" ]; then redo-ifchange "$1.sel"; DEPS=$(cat "$1.sel"); fi
if [ -n "$FLAG" ]; then redo-ifchange "$1.flag"; fi
ADEPS=""; for d in $DEPS; do case "$ALIAS:$d" in 1:sub/*) ADEPS="$ADEPS $RV_TOP/lnk/${d#sub/}";; *) ADEPS="$ADEPS $RV_TOP/$d";; esac; done
if [ -n "$DEPS" ]; then
  if [ -n "$SPLIT" ]; then
    rc=0; for d in $ADEPS; do set +e; redo-ifchange $d; r=$?; set -e; echo "RC $NAME $$ $r $d" >&9; [ $r = 0 ] || { rc=$r; break; }; done
  else
    set +e; redo-ifchange $ADEPS; rc=$?; set -e
    echo "RC $NAME $$ $rc" >&9
  fi
  [ $rc = 0 ] || { echo "E $NAME $$ $rc" >&9; exit $rc; }
fi
if [ -n "$OPT" ]; then set +e; redo-ifchange "$RV_TOP/$OPT"; orc=$?; set -e; echo "RCO $NAME $$ $orc" >&9; fi
if [ -n "$WATCH" ]; then if [ -e "$RV_TOP/$WATCH" ]; then redo-ifchange "$RV_TOP/$WATCH"; else redo-ifcreate "$RV_TOP/$WATCH"; fi; fi
[ -z "$ALWAYS" ] || redo-always
echo "W+ $NAME $$" >&9
[ -z "$SLEEP" ] || sleep $SLEEP
echo "W- $NAME $$" >&9
if [ -n "$FLAG" ] && [ "$(cat "$1.flag")" = 1 ]; then [ -z "$SCRIBBLE" ] || [ ! -e "$1" ] || echo "left by a failing script" >> "$1"; echo "E $NAME $$ 7" >&9; exit 7; fi
if [ -e "$1.hfail" ]; then [ -z "$SCRIBBLE" ] || [ ! -e "$1" ] || echo "left by a failing script" >> "$1"; echo "E $NAME $$ 8" >&9; exit 8; fi
if [ -z "$PHONY" ]; then
  {
    echo "T $NAME $WHO"
    for d in $DEPS; do
      if [ ! -e "$RV_TOP/$d" ]; then echo "$d=none"
      elif [ -n "$HEAD" ]; then echo "$d=$(head -n 1 "$RV_TOP/$d" | cksum)"
      else echo "$d=$(cksum < "$RV_TOP/$d")"; fi
    done
    if [ -n "$OPT" ]; then if [ $orc = 0 ] && [ -e "$RV_TOP/$OPT" ]; then echo "$OPT=$(cksum < "$RV_TOP/$OPT")"; else echo "$OPT=unavailable"; fi; fi
    if [ -n "$WATCH" ]; then if [ -e "$RV_TOP/$WATCH" ]; then echo "$WATCH=$(cksum < "$RV_TOP/$WATCH")"; else echo "$WATCH=absent"; fi; fi
  } > "$3"
  if [ -n "$STAMP" ]; then
    if [ -n "$STAMPPIPE" ]; then { head -n 1 "$3"; sleep 0.03; tail -n +2 "$3"; } | redo-stamp; else redo-stamp < "$3"; fi
  fi
  if [ -n "$LINKOUT" ]; then mv "$3" "$1.ldata"; ln -s "$(basename "$1").ldata" "$3"; fi
fi
if [ -n "$WATCH" ] && [ -e "$RV_TOP/$WATCH.during" ]; then mv "$RV_TOP/$WATCH.during" "$RV_TOP/$WATCH"; fi
echo "E $NAME $$ 0" >&9
'''


def default_candidates(name):
    """Candidate .do files for target `name` (top-relative), in priority order, within the project."""
    d, base = posixpath.split(name)
    out = [posixpath.join(d, base + '.do')]
    exts = ['default' + base[i:] + '.do' for i, c in enumerate(base) if c == '.'] + ['default.do']
    cur = d
    while True:
        for e in exts:
            out.append(posixpath.join(cur, e))
        if cur == '':
            break
        cur = posixpath.dirname(cur)
    return out


class Program:
    def __init__(self):
        self.sources = {}      # name -> {'r': int, 'i': int}
        self.watch = {}        # watched path -> None (absent) or int version
        self.targets = {}      # name -> dict
        self.order = []        # target names, dependencies first
        self.dofiles = {}      # do path -> version (existing scripts, specific and default)
        self.user = {}         # name -> bytes: target names currently owned by the user
        self.watch_link = set()  # watched paths that are symbolic links (dangling while "absent")

    # ---- description
    def spec(self):
        return dict(sources=self.sources, watch=self.watch, targets=self.targets, order=self.order,
                    dofiles=self.dofiles)

    def shape(self):
        """Canonical description of the graph that ignores names' incidental numbering as little as needed."""
        return [(n, sorted(k for k in ('stamp', 'always', 'head', 'phony', 'dyn', 'split', 'alias', 'linkout', 'scribble') if t.get(k)) +
                 (['flag'] if t.get('flag') is not None else []) + (['watch'] if t.get('watch') else []) +
                 (['opt'] if t.get('opt') else []), sorted(t['deps'])) for n, t in sorted(self.targets.items())]

    # ---- semantics
    def chosen_do(self, name):
        for c in default_candidates(name):
            if c in self.dofiles:
                return c
        return None

    def who(self, name):
        c = self.chosen_do(name)
        return None if c is None else '%s:%d' % (c, self.dofiles[c])

    def curdeps(self, name):
        t = self.targets[name]
        return list(t['sel']) if t.get('dyn') else list(t['deps'])

    def fails(self, name):
        return self.targets[name].get('flag') == 1

    def hfails(self, name):
        """Fails whenever it is executed, for a reason that is no declared dependency (a file the script looks at without telling
        redo): it does not make the target dirty, it only makes a rebuild fail."""
        return bool(self.targets[name].get('hfail'))

    def src_bytes(self, name):
        v = self.sources[name]
        return ('%s r%d\n%s i%d\n' % (name, v['r'], name, v['i'])).encode()

    def watch_bytes(self, name):
        v = self.watch[name]
        return None if v is None else ('%s w%d\n' % (name, v)).encode()

    def expected(self, name, memo=None):
        """Bytes a from-scratch build would leave in `name`; None = no file (phony / cannot be built)."""
        memo = {} if memo is None else memo
        if name in memo:
            return memo[name]
        if name in self.user:
            memo[name] = self.user[name]
            return memo[name]
        if name in getattr(self, 'overlay', ()):
            memo[name] = self.overlay[name]
            return memo[name]
        if name in self.sources:
            memo[name] = self.src_bytes(name)
            return memo[name]
        if name in self.watch:
            memo[name] = self.watch_bytes(name)
            return memo[name]
        t = self.targets[name]
        memo[name] = None
        if self.buildable(name, {}) is False or t.get('phony'):
            return None
        lines = ['T %s %s' % (name, self.who(name))]
        for d in self.curdeps(name):
            b = self.expected(d, memo)
            if b is None:
                lines.append('%s=none' % d)
            elif t.get('head'):
                lines.append('%s=%s' % (d, posix_cksum(b.split(b'\n')[0] + b'\n')))
            else:
                lines.append('%s=%s' % (d, posix_cksum(b)))
        if t.get('opt'):
            o = t['opt']
            b = self.expected(o, memo) if self.buildable(o, {}) else None
            lines.append('%s=%s' % (o, posix_cksum(b) if b is not None else 'unavailable'))
        if t.get('watch'):
            b = self.watch_bytes(t['watch'])
            lines.append('%s=%s' % (t['watch'], posix_cksum(b) if b is not None else 'absent'))
        memo[name] = ('\n'.join(lines) + '\n').encode()
        return memo[name]

    def buildable(self, name, memo):
        """Would a from-scratch build of `name` succeed?"""
        if name in memo:
            return memo[name]
        if name in self.user or name in self.sources or name in self.watch or name in getattr(self, 'overlay', ()):
            return True
        memo[name] = True
        t = self.targets[name]
        ok = self.who(name) is not None and not self.fails(name) and all(self.buildable(d, memo) for d in self.curdeps(name))
        memo[name] = ok
        return ok

    def closure(self, name, acc=None):
        acc = set() if acc is None else acc
        if name in self.targets and name not in acc and name not in self.user:
            acc.add(name)
            for d in self.curdeps(name):
                self.closure(d, acc)
            o = self.targets[name].get('opt')
            if o and self.buildable(o, {}):
                self.closure(o, acc)
        return acc

    def dependents(self, name):
        out = set()
        changed = True
        while changed:
            changed = False
            for n in self.targets:
                if n in out:
                    continue
                ds = set(self.curdeps(n)) | ({self.targets[n]['opt']} if self.targets[n].get('opt') else set())
                if name in ds or ds & out:
                    out.add(n)
                    changed = True
        return out

    # ---- files
    def cfg_text(self, name):
        t = self.targets[name]
        lines = ["NAME='%s'" % name, "DEPS='%s'" % ' '.join(t['deps'])]
        for k, var in (('dyn', 'DYN'), ('stamp', 'STAMP'), ('always', 'ALWAYS'), ('head', 'HEAD'),
                       ('phony', 'PHONY'), ('split', 'SPLIT'), ('alias', 'ALIAS'), ('linkout', 'LINKOUT'), ('scribble', 'SCRIBBLE'), ('stamppipe', 'STAMPPIPE')):
            lines.append("%s=%s" % (var, '1' if t.get(k) else ''))
        lines.append("FLAG=%s" % ('1' if t.get('flag') is not None else ''))
        lines.append("WATCH='%s'" % (t.get('watch') or ''))
        lines.append("OPT='%s'" % (t.get('opt') or ''))
        lines.append("SLEEP=%s" % (t.get('sleep') or ''))
        lines.append("ERRLINES=%s" % (t.get('errlines') or ''))
        return '\n'.join(lines) + '\n'

    def write_do(self, top, path, clock):
        write_file(os.path.join(top, path), SCRIPT % dict(who='%s:%d' % (path, self.dofiles[path])), clock)

    def write_source(self, top, name, clock):
        write_file(os.path.join(top, name), self.src_bytes(name), clock)

    def write_sel(self, top, name, clock):
        write_file(os.path.join(top, name + '.sel'), ' '.join(self.targets[name]['sel']) + '\n', clock)

    def write_flag(self, top, name, clock):
        write_file(os.path.join(top, name + '.flag'), '%d\n' % self.targets[name]['flag'], clock)

    def write_watch(self, top, name, clock):
        p = os.path.join(top, name)
        b = self.watch_bytes(name)
        if name in self.watch_link:
            # the watched path is a symbolic link; "absent" = the link dangles
            tgt = p + '.linktarget'
            if not os.path.islink(p):
                if os.path.lexists(p):
                    os.unlink(p)
                os.symlink(os.path.basename(tgt), p)
            if b is None:
                if os.path.lexists(tgt):
                    os.unlink(tgt)
            else:
                write_file(tgt, b, clock)
            return
        if b is None:
            if os.path.lexists(p):
                os.unlink(p)
        else:
            write_file(p, b, clock)

    def write_all(self, top, clock):
        if any(t.get('alias') for t in self.targets.values()) and not os.path.lexists(os.path.join(top, 'lnk')):
            os.makedirs(os.path.join(top, 'sub'), exist_ok=True)
            os.symlink('sub', os.path.join(top, 'lnk'))
        for n in self.sources:
            self.write_source(top, n, clock)
        for n in self.watch:
            self.write_watch(top, n, clock)
        for p in self.dofiles:
            self.write_do(top, p, clock)
        for n, t in self.targets.items():
            write_file(os.path.join(top, n + '.cfg'), self.cfg_text(n))
            if t.get('dyn'):
                self.write_sel(top, n, clock)
            if t.get('flag') is not None:
                self.write_flag(top, n, clock)


# --------------------------------------------------------------------------- trace

def parse_trace(text):
    """-> list of records (kind, fields...) from the unified append-only trace."""
    recs = []
    for line in text.split('\n'):
        if not line:
            continue
        f = line.split(' ')
        recs.append(f)
    return recs


def executed(recs):
    """Multiset of script executions: {target: count} from S records."""
    out = {}
    for f in recs:
        if f[0] == 'S' and len(f) >= 3:
            out[f[1]] = out.get(f[1], 0) + 1
    return out


def overlaps(recs):
    """Targets with two S records without the first script's E in between (same target)."""
    open_ = {}
    bad = []
    for f in recs:
        if f[0] == 'S':
            k = f[1]
            if open_.get(k):
                bad.append((k, list(open_[k]), f[2]))
            open_.setdefault(k, set()).add(f[2])
        elif f[0] == 'E':
            k = f[1]
            if k in open_:
                open_[k].discard(f[2])
    return bad


def max_work_overlap(recs):
    cur = 0
    mx = 0
    for f in recs:
        if f[0] == 'W+':
            cur += 1
            mx = max(mx, cur)
        elif f[0] == 'W-':
            cur -= 1
    return mx
