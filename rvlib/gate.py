"""select()-gate scheduler: the harness decides which events are ready in each wake-up of one redo
process's event loop (child exits, token arrival, timer expiry) and enumerates the coincidences."""
import itertools
import os
import re
import select
import subprocess
import time

from . import common
from .common import write_file, base_env



def _read_nb(fd, n):
    """read after select(): the descriptor may share its O_NONBLOCK flag with redo processes, and somebody else may have
    taken the bytes in between - that is 'nothing there', not an error"""
    try:
        return os.read(fd, n)
    except BlockingIOError:
        return b''

def _zombie_or_gone(pid):
    try:
        st = open('/proc/%d/stat' % pid).read()
        return st[st.rfind(')') + 2] == 'Z'
    except OSError:
        return True


class GateRun:
    """One execution of a gate scenario under a given plan (list of event sets)."""

    def __init__(self, k, slots, nested=False, log=False, fail=(), argv=None, steal=False, lockwait=False):
        self.k, self.slots, self.nested, self.log, self.fail = k, slots, nested, log, set(fail)
        self.steal = steal
        self.lockwait = lockwait      # the gated process also asks for a target that another invocation is building: it gives its
                                      # slot away while it waits for the lock and then has to find one again with nothing running
        self.diverged = False
        self.top = common.new_dir('gate')
        self.trace = os.path.join(self.top, '.rv-trace')
        self.argv = argv
        for i in range(1, k + 1):
            os.mkfifo(os.path.join(self.top, 'f%d' % i))
            write_file(os.path.join(self.top, 't%d.do' % i),
                       'echo "S t%d $$" >> "$RV_TRACE"\nread x < f%d\n%secho t%d > $3\necho "E t%d $$" >> "$RV_TRACE"\n'
                       % (i, i, ('echo "E t%d $$ 9" >> "$RV_TRACE"; exit 9\n' % i) if i in self.fail else '', i, i))
        self.nlock = int(lockwait) if lockwait else 0      # how many such targets (each with its own holder)
        for i in range(1, self.nlock + 1):
            os.mkfifo(os.path.join(self.top, 'fc%d' % i))
            write_file(os.path.join(self.top, 'c%d.do' % i), 'echo "S c%d $$" >> "$RV_TRACE"\nread x < fc%d\necho c > $3\necho "E c%d $$" >> "$RV_TRACE"\n' % (i, i, i))
        if nested:
            write_file(os.path.join(self.top, 'top.do'),
                       'export REDO_VERIF_GATE_REQ="$RV_GATE_REQ" REDO_VERIF_GATE_ACK="$RV_GATE_ACK"\n'
                       'redo-ifchange %s%s\necho top > $3\n' % (''.join('c%d ' % i for i in range(1, self.nlock + 1)), ' '.join('t%d' % i for i in range(1, k + 1))))
        os.mkfifo(os.path.join(self.top, 'req'))
        os.mkfifo(os.path.join(self.top, 'ack'))
        open(self.trace, 'w').close()

    def close(self):
        common.rmtree(self.top)

    def _count_delays(self):
        return (common.read_file(self.trace) or b'').count(b' delay before_token_read ')

    def run(self, plan, timeout=25.0):
        """Returns dict(rc, tokens_back, steps=[(avail, delivered)], woke=[...], out, status)."""
        top = self.top
        r, w = os.pipe()
        import fcntl
        R = fcntl.fcntl(r, fcntl.F_DUPFD, 230)
        W = fcntl.fcntl(w, fcntl.F_DUPFD, R + 1)
        os.close(r)
        os.close(w)
        os.set_inheritable(R, True)
        os.set_inheritable(W, True)
        held = self.slots - 1     # all spare tokens are withheld and handed out as 'tok' events
        gate = dict(REQ=os.path.join(top, 'req'), ACK=os.path.join(top, 'ack'))
        env = base_env(dict(RV_TRACE=self.trace, RV_TOP=top, REDO_VERIF_LOG=self.trace,
                            MAKEFLAGS=' -j --jobserver-auth=%d,%d --jobserver-fds=%d,%d' % (R, W, R, W)))
        if not self.log:
            env['REDO_LOG'] = '0'
        if self.steal:
            env['REDO_VERIF_DELAY'] = 'before_token_read=60'
        if self.nested:
            env['RV_GATE_REQ'], env['RV_GATE_ACK'] = gate['REQ'], gate['ACK']
            argv = ['redo-ifchange', 'top']
        else:
            env['REDO_VERIF_GATE_REQ'], env['REDO_VERIF_GATE_ACK'] = gate['REQ'], gate['ACK']
            argv = self.argv or (['redo-ifchange'] + ['t%d' % i for i in range(1, self.k + 1)])
        reqfd = os.open(gate['REQ'], os.O_RDONLY | os.O_NONBLOCK)
        holders = []
        for i in range(1, self.nlock + 1):
            henv = base_env(dict(RV_TRACE=self.trace, RV_TOP=top, REDO_LOG='0'))
            holders.append(subprocess.Popen(['redo-ifchange', 'c%d' % i], cwd=top, env=henv, stdin=subprocess.DEVNULL, stdout=subprocess.DEVNULL,
                                            stderr=subprocess.DEVNULL, start_new_session=True))
            tz = time.time()
            while time.time() - tz < 10 and (b'S c%d ' % i) not in (common.read_file(self.trace) or b''):
                time.sleep(0.005)
        released = 0
        p = subprocess.Popen(argv, cwd=top, env=env, pass_fds=(R, W), stdin=subprocess.DEVNULL,
                             stdout=subprocess.PIPE, stderr=subprocess.STDOUT, start_new_session=True)
        steps = []
        buf = b''
        t0 = time.time()
        status = 'exit'
        step = 0
        while True:
            if p.poll() is not None:
                break
            if time.time() - t0 > timeout:
                status = 'timeout'
                break
            rl, _, _ = select.select([reqfd], [], [], 0.05)
            try:
                chunk = os.read(reqfd, 65536) if rl else b''
            except BlockingIOError:
                chunk = b''          # a writer opened the FIFO between select() and read() and has not written yet
                rl = []
            if not chunk:
                if rl:
                    time.sleep(0.005)      # EOF: no writer at the moment
                if self.nested and held > 0 and b' js_exit ' in (common.read_file(self.trace) or b''):
                    # the gated (nested) process is gone; the slots the harness was holding back for it return to the pool, as they
                    # would when the other jobs that had them finish (its parent may need one to take its own slot back)
                    os.write(W, b't' * held)
                    held = 0
                if released < len(holders) and (common.read_file(self.trace) or b'').count(b' lock_wait ') > released:
                    # the gated process has given its slot away and blocks on the lock: take that slot out of the pipe (some
                    # other job got it), then let the holder of that target finish
                    time.sleep(0.05)
                    while select.select([R], [], [], 0)[0]:
                        held += len(_read_nb(R, 16))
                    m = re.findall(r'lock_wait fid=(\d+)', (common.read_file(self.trace) or b'').decode('utf-8', 'replace'))
                    # which target it waits for is not in the record by name: release the holders in the order of the command line
                    for i, h in enumerate(holders):
                        if h.poll() is None:
                            # the one whose lock is being waited for is the first still running in request order, unless the
                            # process skipped it; releasing in order is what the script's argument order gives
                            try:
                                fd = os.open(os.path.join(top, 'fc%d' % (i + 1)), os.O_WRONLY | os.O_NONBLOCK)
                                os.write(fd, b'go\n')
                                os.close(fd)
                            except OSError:
                                pass
                            try:
                                h.wait(timeout=10)
                            except subprocess.TimeoutExpired:
                                pass
                            break
                    released += 1
                continue
            buf += chunk
            while b'\n' in buf:
                line, buf = buf.split(b'\n', 1)
                line = line.decode('utf-8', 'replace')
                running = dict(re.findall(r'(t\d+):(\d+)', line))
                want = 'want_token=true' in line
                m = re.search(r'timer_ms=(-?\d+)', line)
                timer = int(m.group(1)) if m else -1
                avail = sorted(['x' + n[1:] for n in running]) + (['tok'] if want and held > 0 else []) + (['timer'] if timer >= 0 else [])
                if self.steal and want and held > 0:
                    avail.append('steal')
                if step < len(plan) and (set(plan[step]) & set(avail)):
                    ev = set(plan[step]) & set(avail)
                else:
                    # also when a planned step names nothing that is possible in this run (which children are already
                    # running at a given wake-up is not fully determined by the plan): deliver whatever can happen
                    if step < len(plan):
                        self.diverged = True
                    ev = set(a for a in avail if a != 'timer')     # default: everything that can happen
                    if not ev and 'timer' in avail:
                        ev = {'timer'}
                step += 1
                done = []
                post_steal = False
                for e in sorted(ev):
                    if e == 'steal':
                        # a token arrives, is seen readable, and another process takes it first
                        if held > 0 and want and 'tok' not in ev:
                            self._delays_before = self._count_delays()
                            os.write(W, b't')
                            post_steal = True
                            done.append('steal')
                    elif e == 'tok':
                        if held > 0 and want:
                            os.write(W, b't')
                            held -= 1
                            done.append('tok')
                    elif e == 'timer':
                        if timer >= 0:
                            time.sleep(timer / 1000.0 + 0.02)
                            done.append('timer')
                    elif ('t' + e[1:]) in running:
                        pid = int(running['t' + e[1:]])
                        tz = time.time()
                        while time.time() - tz < 5:
                            try:
                                fd = os.open(os.path.join(top, 'f' + e[1:]), os.O_WRONLY | os.O_NONBLOCK)
                            except OSError:
                                if _zombie_or_gone(pid):
                                    break
                                time.sleep(0.002)     # the script has not opened its FIFO yet
                                continue
                            os.write(fd, b'go\n')
                            os.close(fd)
                            break
                        tz = time.time()
                        while not _zombie_or_gone(pid) and time.time() - tz < 5:
                            time.sleep(0.002)
                        done.append(e)
                steps.append((avail, done, dict(re.findall(r'(my_tokens|cheats)=(-?\d+)', line))))
                if not done and not (('timer' in avail)):
                    # nothing can wake this process any more: let select() block; the watchdog decides
                    pass
                tz = time.time()
                while p.poll() is None and time.time() - tz < 10:
                    try:
                        fd = os.open(gate['ACK'], os.O_WRONLY | os.O_NONBLOCK)
                    except OSError:
                        time.sleep(0.002)     # the gated process has not opened ACK for reading yet
                        continue
                    os.write(fd, b'g')
                    os.close(fd)
                    break
                if post_steal:
                    tz = time.time()
                    while p.poll() is None and time.time() - tz < 3 and self._count_delays() <= self._delays_before:
                        time.sleep(0.002)
                    if select.select([R], [], [], 0)[0]:
                        _read_nb(R, 1)      # stolen: the token stays with the harness
                    else:
                        held -= 1          # the process got there first after all
        for h in holders:
            if h.poll() is None:
                common.kill_session(h.pid)
            try:
                h.wait(timeout=5)
            except Exception:
                pass
        if status != 'exit':
            common.kill_session(p.pid)
        try:
            out = p.communicate(timeout=5)[0].decode('utf-8', 'replace')
        except Exception:
            out = ''
        # wait for remnants (orphaned scripts)
        tz = time.time()
        while common.session_pids(p.pid) and time.time() - tz < 3:
            time.sleep(0.01)
        common.kill_session(p.pid)
        left = 0
        while select.select([R], [], [], 0)[0]:
            left += len(_read_nb(R, 4096))
        os.close(R)
        os.close(W)
        os.close(reqfd)
        tr = (common.read_file(self.trace) or b'').decode('utf-8', 'replace')
        woke = [l for l in tr.split('\n') if l.startswith('H ') and ' woke ' in l]
        return dict(rc=p.returncode, status=status, tokens_back=left + held, expect_tokens=self.slots - 1,
                    steps=steps, woke=woke, out=out, trace=tr)


def subsets(avail):
    items = list(avail)
    out = []
    for r in range(1, len(items) + 1):
        for c in itertools.combinations(items, r):
            if 'timer' in c and len(c) > 2:
                continue     # the timer together with one I/O event is enough: the event loop handles the I/O first and then
                             # wakes both waiters; which of them the waiting future looks at first is its own (pseudo-random) choice
            if 'steal' in c and 'tok' in c:
                continue
            out.append(list(c))
    return out
