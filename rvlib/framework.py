"""Verdict collection, known findings, evidence and replay files."""
import json
import os
import time

from . import common

KNOWN_PATH = os.path.join(common.VERIF, 'known_findings.json')
# (tools that run the checks against a deliberately broken or instrumented tree point this elsewhere, so that the committed
#  evidence always describes a run against /repo as it is)
EVIDENCE_DIR = os.environ.get('RV_EVIDENCE_DIR') or os.path.join(common.VERIF, 'evidence')
REPLAY_DIR = os.path.join(common.VERIF, 'replays')


def load_known():
    try:
        with open(KNOWN_PATH) as f:
            return json.load(f).get('findings', [])
    except FileNotFoundError:
        return []


def replay_result(prop, r, path):
    """Common end of a --replay of one case: known findings are named and do not count, anything else is a violation."""
    known = set(k['key'] for k in load_known() if k.get('property') == prop and k.get('status') == 'known')
    vs = r.get('violations') or []
    for v in vs:
        if v.get('key') in known:
            print('KNOWN-FINDING: property=%s %s [%s]' % (prop, v.get('what', '')[:200], v.get('key')))
    rest = [v for v in vs if v.get('key') not in known]
    verdict = r.get('verdict')
    if verdict == 'violated' and not rest:
        verdict = 'held'
    print(verdict, rest or r.get('why'))
    common.cleanup_scratch()
    if verdict == 'violated':
        print('VIOLATION property=%s replay=%s' % (prop, path))
        return 1
    return 0


class Collector:
    """Aggregates case results of one check run and writes evidence/<id>.json.

    A case result is a dict with:
      verdict      'held' | 'violated' | 'inconclusive'
      key          structured signature of a violation (matched against known_findings.json)
      what         one-line description of a violation / of why a case is inconclusive
      nontrivial   bool; shape: hashable description used for the distinct count
      sample       small JSON-able description of the case
      obs          {name: number} summed over cases;  sets: {name: [values]} unioned
      replay       JSON-able blob sufficient to re-run the case
    """

    def __init__(self, prop, tier, level, rule, assumptions=(), floor=2, max_samples=4):
        self.prop, self.tier, self.level, self.rule = prop, tier, level, rule
        self.assumptions = list(assumptions)
        self.floor = floor
        self.t0 = time.time()
        self.evaluations = 0
        self.shapes = set()
        self.samples = []
        self.max_samples = max_samples
        self.obs = {}
        self.sets = {}
        self.violations = []      # (key, what, replay_path)
        self.known_hits = {}
        self.inconclusive = []
        self.known = [k for k in load_known() if k.get('property') == prop and k.get('status') == 'known']
        self.extra = {}

    def add(self, r):
        if r is None:
            return
        self.evaluations += 1
        v = r.get('verdict', 'held')
        for k, n in (r.get('obs') or {}).items():
            self.obs[k] = self.obs.get(k, 0) + n
        for k, vals in (r.get('sets') or {}).items():
            self.sets.setdefault(k, set()).update(vals)
        if r.get('nontrivial') and v != 'inconclusive':
            self.shapes.add(r.get('shape') if r.get('shape') is not None else common.shash(r.get('sample')))
        if r.get('sample') is not None and len(self.samples) < self.max_samples:
            self.samples.append(r['sample'])
        if v == 'inconclusive':
            self.inconclusive.append(r.get('why') or r.get('what') or '?')
            if r.get('tb'):
                common.log('rv: harness error in a case:\n' + r['tb'])
        elif v == 'violated':
            for viol in (r.get('violations') or [dict(key=r.get('key'), what=r.get('what'))]):
                self._violation(viol.get('key') or 'unkeyed', viol.get('what') or '', r)

    def _violation(self, key, what, r):
        for k in self.known:
            if k['key'] == key:
                if key not in self.known_hits:
                    print('KNOWN-FINDING: property=%s %s [%s]' % (self.prop, k.get('description', what), key), flush=True)
                self.known_hits[key] = self.known_hits.get(key, 0) + 1
                return
        os.makedirs(os.path.join(REPLAY_DIR, self.prop), exist_ok=True)
        n = len(self.violations)
        path = os.path.join(REPLAY_DIR, self.prop, '%s-%s-%d-%d.json' % (self.tier, common.seed(), os.getpid(), n))
        with open(path, 'w') as f:
            json.dump(dict(property=self.prop, key=key, what=what, tier=self.tier, seed=common.seed(),
                           replay=r.get('replay'), sample=r.get('sample')), f, indent=1, default=str)
        self.violations.append((key, what, path))
        if n < 6:
            print('VIOLATION property=%s replay=%s' % (self.prop, path), flush=True)
            print('  key=%s :: %s' % (key, what[:600]), flush=True)

    def finish(self, extra_coverage=None, exhaustive=None):
        wall = time.time() - self.t0
        cov = dict(evaluations=self.evaluations, distinct_nontrivial=len(self.shapes), rule=self.rule,
                   samples=self.samples or [], inconclusive=len(self.inconclusive),
                   inconclusive_reasons=sorted(set(self.inconclusive))[:8],
                   observations=self.obs,
                   distinct_observed={k: len(v) for k, v in self.sets.items()},
                   observed_values={k: sorted(map(str, v))[:24] for k, v in self.sets.items()},
                   known_findings_hit=self.known_hits,
                   violation_keys=sorted(set(k for k, _, _ in self.violations))[:20])
        if exhaustive is not None:
            cov['exhaustive'] = exhaustive
        cov.update(self.extra)
        if extra_coverage:
            cov.update(extra_coverage)
        ev = dict(property_id=self.prop, tier=self.tier, seed=common.seed(), level=self.level, coverage=cov,
                  assumptions=self.assumptions, wall_s=round(wall, 2), violations=len(self.violations))
        os.makedirs(EVIDENCE_DIR, exist_ok=True)
        tmp = os.path.join(EVIDENCE_DIR, '%s.json.tmp%d' % (self.prop, os.getpid()))
        with open(tmp, 'w') as f:
            json.dump(ev, f, indent=1, default=str, sort_keys=True)
        os.rename(tmp, os.path.join(EVIDENCE_DIR, '%s.json' % self.prop))
        status = 'held'
        if self.violations:
            status = 'VIOLATED'
        elif len(self.shapes) < self.floor:
            status = 'INCONCLUSIVE (only %d distinct non-trivial cases, floor %d)' % (len(self.shapes), self.floor)
        print('%s %s: %s; %d cases, %d distinct non-trivial, %d inconclusive, %d known-finding hits, %.1fs'
              % (self.prop, self.tier, status, self.evaluations, len(self.shapes), len(self.inconclusive),
                 sum(self.known_hits.values()), wall), flush=True)
        if self.inconclusive:
            print('  inconclusive: %s' % '; '.join(sorted(set(self.inconclusive))[:5])[:800], flush=True)
        return 1 if self.violations else 0
