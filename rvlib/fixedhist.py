"""Hand-written histories: shapes that generated histories reach only rarely (each one once found a defect or a
model error).  They run through the same runner and oracles as the generated ones."""
from .prog import Program


def _prog(sources, targets):
    p = Program()
    for s in sources:
        p.sources[s] = dict(r=0, i=0)
    for n, t in targets:
        p.targets[n] = dict(t)
        p.dofiles[n + '.do'] = 0
        p.order.append(n)
    return p


def B(ts, **kw):
    d = dict(j=1, keep=False, forced=False)
    d.update(kw)
    return ('build', list(ts), d)


def tolerated_failure_same_checksum():
    """A consumer tolerates the failure of a checksummed dependency; the dependency is repaired to the same
    content (checksum unchanged): the consumer must be rebuilt (C01 stale otherwise; seed 2 of the thorough tier)."""
    p = _prog(['s0', 's1'], [('t3', dict(deps=['s1'], stamp=True, flag=0)), ('t1', dict(deps=['s0'])),
                             ('t4', dict(deps=['t1'], opt='t3')), ('t6', dict(deps=['t3', 't4']))])
    ops = [B(['t6']), ('flag', 't3', 1), B(['t6'], keep=True), B(['t6'], keep=True), ('flag', 't3', 0), B(['t6'], keep=True), B(['t6']),
           ('flag', 't3', 1), B(['t4']), B(['t4']), ('flag', 't3', 0), B(['t4']), B(['t4'])]
    return p, ops


def tolerated_failure_same_checksum_file_removed():
    """As above, but the file of the checksummed dependency was removed by hand before the build that fails: the failure leaves
    no file behind, so redo no longer counts the dependency as one of its targets - the consumer that carried on after the failure
    must still not look up to date once the dependency is repaired to the same content (seeded change C05-7)."""
    p = _prog(['s0', 's1'], [('t3', dict(deps=['s1'], stamp=True, flag=0)), ('t1', dict(deps=['s0'])),
                             ('t4', dict(deps=['t1'], opt='t3')), ('t6', dict(deps=['t4']))])
    ops = [B(['t6']), ('flag', 't3', 1), ('rm', 't3'), B(['t4']), B(['t4']), ('flag', 't3', 0), B(['t3']), B(['t4']), B(['t6']), B(['t6'])]
    return p, ops


def tolerated_failure_through_a_parent_never_started():
    """The consumer tolerates the failure of a *plain* target whose checksummed dependency fails: the plain target is only 'maybe
    out of date', its prerequisite is tried out of band and fails, so its own script is never started and nothing marks it failed.
    The consumer that carried on must still be rebuilt once the prerequisite is repaired to the same checksum (reported by a
    sub-agent in round 7; fixed in the repository)."""
    p = _prog(['s0', 's1'], [('t3', dict(deps=['s1'], stamp=True, flag=0)), ('t2', dict(deps=['t3'])),
                             ('t4', dict(deps=['s0'], opt='t2')), ('t6', dict(deps=['t4']))])
    ops = [B(['t6']), ('flag', 't3', 1), B(['t4'], forced=True), ('flag', 't3', 0), B(['t3']), B(['t4']), B(['t6']), B(['t6'])]
    return p, ops


def tolerated_failure_plain():
    p = _prog(['s0'], [('t3', dict(deps=['s0'], flag=0)), ('t4', dict(deps=['s0'], opt='t3')), ('t5', dict(deps=['t4']))])
    ops = [B(['t5']), ('flag', 't3', 1), B(['t5']), B(['t5']), ('flag', 't3', 0), B(['t5']), B(['t5'])]
    return p, ops


def forced_after_check_same_command():
    """`redo a b c` where b was already checked while a was rebuilt: known finding, must stay keyed (model error once)."""
    p = _prog(['s0', 's1'], [('t0', dict(deps=['s0'])), ('t1', dict(deps=['t0'])), ('t2', dict(deps=['t1', 't0'])), ('t3', dict(deps=['t2', 's1']))])
    ops = [B(['t3']), B(['t3', 't0', 't2'], forced=True), B(['t3']), ('edit_r', 's0'), B(['t3']), B(['t3'])]
    return p, ops


def oob_dependency_fails_before_or_after():
    """A checksummed dependency fails in the run in which a consumer is only 'maybe dirty' because of it (order-dependent)."""
    p = _prog(['s0', 's1'], [('t0', dict(deps=['s0', 's1'], stamp=True, head=True, flag=0)), ('t2', dict(deps=['t0'], head=True)),
                             ('t3', dict(deps=['t2'], stamp=True, always=True, opt='t0')), ('t7', dict(deps=['t2', 't0'])), ('t8', dict(deps=['t7', 't3']))])
    ops = [B(['t8']), ('flag', 't0', 1), B(['t8']), B(['t8']), ('flag', 't0', 0), B(['t8']), B(['t8'])]
    return p, ops


def stamp_chain_edit_cycle():
    """Nested checksummed targets with checksum-preserving and checksum-changing edits and direct requests of consumers."""
    p = _prog(['s0'], [('a', dict(deps=['s0'], stamp=True, head=True)), ('b', dict(deps=['a'], stamp=True)), ('c', dict(deps=['b'])), ('d', dict(deps=['c', 'a']))])
    ops = [B(['d']), ('edit_i', 's0'), B(['d']), ('edit_r', 's0'), B(['c']), B(['d']), ('rm', 'b'), B(['d']), ('edit_r', 's0'), B(['d'], j=3), B(['d'])]
    return p, ops


def stamp_sometimes():
    """A target that records a checksum in some builds only: X1 stamped, X2 not stamped, X1 stamped again (a kept checksum of
    X1 would call the third build unchanged and leave the consumer built from X2)."""
    p = _prog(['s0'], [('mid', dict(deps=['s0'], stamp=True)), ('top', dict(deps=['mid'])), ('side', dict(deps=['mid'], head=True))])
    ops = [B(['top', 'side']), ('edit_r', 's0'), ('stampflip', 'mid'), B(['top']), ('edit_back', 's0'), ('stampflip', 'mid'), B(['top']), B(['top', 'side']), B(['top', 'side'])]
    return p, ops


def override_then_removed():
    """A generated file is edited by hand, a build records the override, then the user deletes the file: it is a target again
    (listed by redo-targets, listed by redo-ood, rebuilt by the next build)."""
    p = _prog(['s0'], [('mid', dict(deps=['s0'])), ('top', dict(deps=['mid'])), ('other', dict(deps=['s0']))])
    ops = [B(['top', 'other']), ('uwrite', 'mid', 'inplace'), B(['top']), ('urm', 'mid'), B(['other']), B(['top']), B(['top']),
           ('uwrite', 'other', 'replace'), B(['other']), ('urm', 'other'), ('edit_r', 's0'), B(['top', 'other'])]
    return p, ops


def overwritten_checksummed_then_failing_sibling():
    """The user overwrites a checksummed target; the next build of a consumer two levels up also has a failing checksummed
    dependency.  redo's first look at the overwritten file says "maybe changed" (its record still has the checksum), so it is
    handled out of band together with the failing one and the intermediate target is never started (model error once, soak 4)."""
    p = _prog(['s0', 's1'], [('t0', dict(deps=['s0'], stamp=True)), ('t2', dict(deps=['t0', 's1'], stamp=True, flag=0)),
                             ('t3', dict(deps=['t0'])), ('t4', dict(deps=['t3', 't2']))])
    ops = [B(['t4']), ('flag', 't2', 1), ('uwrite', 't0', 'replace'), B(['t4']), B(['t4']), ('flag', 't2', 0), B(['t4']), B(['t4']),
           ('urm', 't0'), B(['t4']), ('uwrite', 't0', 'inplace'), B(['t3']), B(['t4'])]
    return p, ops


def forced_rebuild_fails_then_indirect_request():
    """`redo -k chk b w` (chk -> b, w -> z -> b) where b, clean so far, now fails for an undeclared reason: chk's look marks b
    "checked in this run", the forced rebuild of b fails, and w's request for z must still meet the failure (a "checked" mark
    must not hide a failure recorded later in the same run); next run retries; repair propagates."""
    p = _prog(['s0'], [('b', dict(deps=['s0'])), ('chk', dict(deps=['b'])), ('z', dict(deps=['b'])), ('w', dict(deps=['z']))])
    ops = [B(['w', 'chk']), ('hflag', 'b', 1), B(['chk', 'b', 'w'], forced=True, keep=True), B(['w']), B(['w', 'chk']),
           ('hflag', 'b', 0), B(['w', 'chk']), B(['w', 'chk']),
           ('hflag', 'b', 1), B(['chk', 'b', 'w'], forced=True), B(['w'], keep=True), ('hflag', 'b', 0), B(['w', 'chk'])]
    return p, ops


SCENARIOS = dict((f.__name__, f) for f in (tolerated_failure_same_checksum, tolerated_failure_same_checksum_file_removed, tolerated_failure_through_a_parent_never_started, tolerated_failure_plain, forced_after_check_same_command,
                                           oob_dependency_fails_before_or_after, stamp_chain_edit_cycle, stamp_sometimes, override_then_removed,
                                           overwritten_checksummed_then_failing_sibling, forced_rebuild_fails_then_indirect_request))
