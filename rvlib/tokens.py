"""Token ledger: monitors over the jobserver hook records (H <pid> <kind> k=v ...) of the unified trace.

Soundness of the order-based part (see DESIGN.md 2.3): `tok_read` is recorded after the read, `tok_release`
before the write, so in file order every recorded read is preceded by the record of the release that
produced the byte it consumed; the running sum initial + released - read can therefore never be negative
in a correct implementation, whatever the scheduling.
"""
import re

KV = re.compile(r'(\w+)=(\S+)')


def parse_hooks(text):
    out = []
    for line in text.split('\n'):
        if not line.startswith('H '):
            continue
        f = line.split(' ', 3)
        if len(f) < 3:
            continue
        try:
            pid = int(f[1])
        except ValueError:
            continue
        rest = f[3] if len(f) > 3 else ''
        out.append((pid, f[2], dict(KV.findall(rest)), rest))
    return out


def ledger(text, initial=None, own=None):
    """-> (anomalies, stats).  `initial`: bytes the harness put into the token pipe (inherited jobserver);
    `own`: N of a self-owned `redo -jN` (then the pipe starts empty and the owner releases N-1)."""
    hooks = parse_hooks(text)
    anoms = []
    st = dict(hook_records=len(hooks), token_reads=0, token_releases=0, tokens_shared=0, cheat_takes=0, cheat_eats=0,
              cheat_writes=0, js_exits=0, releases_absorbed_by_borrowed_slot=0, processes=0, reads_while_holding=0, exits_on_cheat=0, max_pipe=0, min_pipe=0)
    pids = {}
    pipe = initial if initial is not None else 0
    cheatpipe = 0
    low = pipe
    for pid, kind, kv, rest in hooks:
        p = pids.setdefault(pid, dict(setup=None, exit=None, reads=0))
        if kind == 'js_setup':
            p['setup'] = kv
        elif kind == 'tok_read':
            st['token_reads'] += 1
            p['reads'] += 1
            pipe -= 1
            low = min(low, pipe)
            if int(kv.get('held', '0')) >= 1:
                st['reads_while_holding'] += 1
        elif kind == 'tok_release':
            st['token_releases'] += 1
            sh = int(kv.get('shared', '0'))
            st['tokens_shared'] += sh
            if int(kv.get('n', '0')) > sh:
                st['releases_absorbed_by_borrowed_slot'] += 1
            pipe += sh
            st['max_pipe'] = max(st['max_pipe'], pipe)
        elif kind == 'cheat_take':
            st['cheat_takes'] += 1
        elif kind == 'cheat_eat':
            st['cheat_eats'] += 1
            cheatpipe -= 1
        elif kind == 'cheat_write':
            st['cheat_writes'] += 1
            cheatpipe += int(kv.get('n', '1'))
        elif kind == 'js_exit':
            st['js_exits'] += 1
            p['exit'] = kv
            mt, ch, tl = int(kv.get('my_tokens', '0')), int(kv.get('cheats', '0')), int(kv.get('top_level', '0'))
            if ch:
                st['exits_on_cheat'] += 1
            # every redo process runs inside exactly one job slot (its parent gave up a token for it, or it is
            # the top level holding the implicit one): it must end holding exactly one real token, or none
            # after having written its borrowed one to the cheat pipe
            if not ((mt == 1 and ch == 0) or (mt == 0 and ch == 1)):
                anoms.append(dict(key='ledger:process-exits-with-%d-tokens-%d-cheats' % (mt, ch),
                                  what='pid %d left the jobserver with my_tokens=%d cheats=%d (top_level=%d): its slot is %s'
                                       % (pid, mt, ch, tl, 'lost' if mt - ch < 1 else 'duplicated')))
    st['processes'] = len(pids)
    st['min_pipe'] = low
    if low < 0:
        anoms.append(dict(key='ledger:token-read-without-release', what='running sum of the token pipe reaches %d: a token was read that nobody had put there' % low))
    st['final_pipe'] = pipe
    st['final_cheatpipe'] = cheatpipe
    return anoms, st
